#!/usr/bin/env python3
"""Regenerates /verif/MANIFEST.json from the table below (kept in one place so the manifest is always valid)."""
import json
import os

VERIF = os.path.dirname(os.path.dirname(os.path.abspath(__file__)))

NOTE = ("Trusted: CPython/asyncio, the parser stand-in (vf/gqlparse.py; every generated document is cross-checked by a "
        "print/parse round trip incl. node spans), the reference model vf/model (written from the June-2018 text). "
        "Bounds are stated in the evidence file; nothing beyond them is claimed. lexical behaviour of the real "
        "libgraphqlparser is out of scope (absent from the sandbox).")

CHECKS = {
    "C01": dict(engine="E1+E5", cat="model_checking",
                technique="explicit-state BFS over documents (rewrite catalogue at every position, depth d) x variable assignments x data trees, each state executed on the real engine and compared with a reference executor",
                text="Bounded-exhaustive: every valid document within d rewrites (12-kind catalogue applied at every position) of 14 seed documents over schema K, every operation name, every Boolean variable assignment, 2-4 data trees, all 16 type-resolver presence configurations, default-resolver and envelope cases. Each execution of the real engine is compared with an independent June-2018 reference executor: ordered data and the multiset of resolver calls (path, parent identity, coerced arguments)."),
    "C02": dict(engine="E2+E5", cat="fault_enumeration",
                technique="exhaustive fault enumeration: every reachable field instance x failure kind (singles, pairs, triples) and every nullability/list layout (216 chain schemas), each run on the real engine and compared with the reference executor's null propagation",
                text="Every single (fault point, failure kind) on every document within one rewrite of 14 seeds, every pair on the seeds (thorough: pairs at d=1, triples on seeds), and singles+pairs on all 6^3 chain schemas root->a->b->c. Failure kinds: raise, raise library error with user message/extensions, exception returned as value, null, unserialisable leaf, non-list for list, unknown/foreign/non-object runtime type. Oracle: data equals the reference (exactly the nearest nullable position nulled), every nulled position explained by an error at or below it, no error without an injected reachable failure, list indices in paths, locations inside the field's text span, user message and extensions preserved."),
    "C03": dict(engine="E1", cat="model_checking",
                technique="exhaustive enumeration of (wrapper shape x leaf kind) fields x adversarial resolver-value universe (values, singletons, pairs); structural conformance invariant checked on every execution of the real engine",
                text="140 fields (14 wrapper shapes, thorough 18, x 10 leaf kinds incl. enum, custom scalar, object, interface, union) x 80-value adversarial universe, every singleton list and every pair from a 12-value core for list shapes. Invariant derived from schema model + selection: never raises, exactly the selected keys, lists where declared, no null at non-null, Int a 32-bit int, Float finite, String/ID str, Boolean bool, enum among declared values, abstract completed as a possible type, JSON-serialisable, every manufactured null explained by an error and no error without a null."),
    "C04": dict(engine="E1+E5", cat="model_checking",
                technique="exhaustive enumeration of declared variable type x default x raw JSON value (every position) x presence; each request run on the real engine and compared with the reference CoerceVariableValues",
                text="10 base types (5 built-in scalars, custom scalar, enum, 3 input objects incl. recursive/defaulted) x 14 wrapper shapes (thorough 18, depth 3) x default in {none, valid, null, invalid} x presence {absent, null, each value of a per-type universe with right/wrong/borderline kinds at every position} + undeclared extras + all ok/bad/null/absent combinations of three variables. Oracle: refused before any resolver with every offending variable named, xor the resolver observes exactly the spec-coerced value (type-sensitive comparison); don't-care policies DC1/DC2 tried."),
    "C05": dict(engine="E1+E5", cat="model_checking",
                technique="exhaustive enumeration of argument type x way of supplying (10 ways) x value x position (field / directive / @skip,@include); absolute oracle (reference CoerceArgumentValues) and relational oracle (all spellings of a value agree)",
                text="Same type and value universes as C04; every value is spelled as literal, variable, variable inside list literal, variable inside object literal, variable default, schema default, omitted, null literal, null/absent variable, nullable-variable-with-default into a non-null position (top level and nested). The dictionary observed by the real resolver / directive hook is compared with the reference dictionary and with the dictionaries of the other spellings; ill-typed values must never be delivered."),
    "C06": dict(engine="E1+E5", cat="model_checking",
                technique="explicit-state BFS over documents certified valid by a reference validator (29 rules); every state executed on the real engine; invariant: no validation-tagged error, data equals the reference executor",
                text="Every valid document within d=2 (thorough 3) rewrites, from a 10-kind catalogue applied at every position (duplicate field, extract/spread fragment again, nest spreads, @skip/@include with literals and variables, argument through a fresh variable, custom directive at every executable location, introspection meta fields, extra operations), of 12 seeds built around validation bookkeeping (fragment DAGs with sharing, late definitions, variables only inside nested fragments, repeated fields with arguments). The engine must not answer with an error carrying a validation rule tag nor with the generic parse/validate failure, and data must equal the reference."),
    "C07": dict(engine="E1+E5", cat="model_checking",
                technique="explicit-state enumeration: base documents (seeds and all valid documents within d rewrites) x violation-injecting rewrite catalogue (26 rules x site kinds) applied at every applicable node; reference validator labels each mutant; refusal and zero-activity invariant checked on the real engine",
                text="For 17 seed documents (queries, mutations, subscriptions) and every valid document within 1 rewrite (thorough 2), a catalogue of violation-injecting rewrites for each of the 26 documented rules is applied at every applicable node and site kind (operation, nested selection, named/inline fragment, directive argument, list item, nested input field, variable default, first/non-first operation). The reference validator certifies which rules each mutated document breaks; evidence reports per (rule, site) how many mutants break exactly one supported rule. Oracle: data null, errors non-empty, and zero resolver / type-resolver / directive-hook / subscription-source activity, for every operation name."),
    "C08": dict(engine="E3+E5", cat="model_checking",
                technique="stateless model checking of the real engine on a hand-stepped asyncio loop: exhaustive enumeration of all completion orders of suspended resolvers/hooks, plus bounded mid-run injections, x 9 concurrency configurations x single faults; deterministic replay",
                text="13 requests over schema K (siblings, nested objects, lists of objects, merged fields, abstract fields, @skip/@include, two arguments with suspending argument hooks), each also with every single raise/null fault at every reachable field, under the 2x2x2 concurrency configurations plus a mixed per-field configuration. For each, ALL orders in which the event loop can complete the pending resolver futures are executed (all linear extensions), plus every schedule with <= 1 (thorough 2) completion injected between two ready callbacks. Every schedule's response must equal the reference and every other schedule's; every started resolver finished, none started twice, no pending future, no live task, no deadlock/livelock; resolver arguments equal the reference. One schedule per shard is replayed twice to prove determinism."),
    "C09": dict(engine="E3+E5", cat="model_checking",
                technique="stateless model checking on a hand-stepped asyncio loop: all interleavings of nested resolver completions for mutation documents x failure placements; serial-order invariant on the event log",
                text="11 mutation documents (plain, aliases, root-level inline and named fragments, nested 2-element lists, repeated root keys, non-null roots, @skip with variables) x every failure placement (none; raise/null at each root field; raise/null at each nested field) x all completion orders of the suspended resolvers (+ <= 1 mid-run injection, thorough 2). Invariant: every start/finish event under root key r1 precedes every event under the next root key, never two roots pending together, response keys in document order, data/errors equal to the reference (a failing nullable root does not stop the next one, a failing non-null root nulls data)."),
    "C10": dict(engine="E1+E5", cat="model_checking",
                technique="exhaustive enumeration of 8 scalars x 3 coercion directions x boundary-value universe on the real scalar objects and through a real engine; four algebraic laws checked on every triple against reference tables",
                text="Every (scalar, direction, value) triple over 8 built-in scalars, result/input/literal directions and a 140-value boundary universe (0, +-1, +-2^31, +-2^53, huge ints, integral/non-integral floats, NaN, +-inf, denormals, numeric/blank/unicode strings, bools, containers, temporal strings and datetimes), on the scalar objects attached to a cooked schema and through echo fields of a real engine (resolver return, literal spelling, variable spelling). Laws: L1 result fails or yields the wire type denoting the same value; L2 input accepts exactly the spec kinds (reference tables in vf/model/coerce.py); L3 literal == variable; L4 idempotence and temporal round trips."),
    "C11": dict(engine="E1+E5", cat="model_checking",
                technique="explicit-state BFS over schema models (rewrite catalogue S at every site) x 4 ways of supplying the SDL x extend spelling; every model cooked by the real engine and its introspection answers compared with the expectation computed from the model",
                text="5 seed models (kitchen sink, wrapper matrix, minimal, renamed roots, deprecations/nonIntrospectable) and every model within 1 (thorough 2) rewrite: add a type of each kind, wrap field types, arguments and input fields with defaults of every value kind (incl. strings needing escapes, null, lists, objects, enums), new implementers / union members, @deprecated with and without reason, @nonIntrospectable, custom directives with arguments and location sets, root changes. Each is supplied as string, file, list of files and directory tree (sub-directories, .sdl and .graphql), with and without `extend`. Compared: kinds, fields, args, wrapped types, default values (parsed back), enum values, interfaces, possible types, input fields, roots, directive definitions, deprecation flags/reasons, includeDeprecated true/false/default, hidden fields, __type(name:) for declared and near-miss unknown names, a nonIntrospectable schema."),
    "C12": dict(engine="E1+E5", cat="model_checking",
                technique="explicit-state enumeration: valid base schema models (seeds and all valid models within d rewrites) x catalogue of schema-violation rewrites (each checked rule x each site), certified invalid by a reference schema validator; create_engine must raise on every one",
                text="For 3 seed models and every valid model within 1 (thorough 2) rewrite, each rule named in the statement is broken at every site: undefined type (object / interface field, wrapped, argument, via extend, input field, directive argument), non-input type (object, interface, union as argument plain and wrapped, input field), interface contract (missing field, incompatible type x3, missing / mistyped / extra required argument, obligation added by extend), implements object / enum / undefined, roots (type removed, schema block naming undefined query / mutation / subscription, default and arbitrary names), object without fields, union containing itself, duplicate enum values (definition, definition+extend, inside one extend), duplicate types / directives, 17 kinds of invalid extend; plus a scalar without implementation, each of 11 non-awaitable directive hooks, every single-token deletion of a small SDL and 13 malformed texts. The valid bases are required to build."),
    "C13": dict(engine="E1+E5", cat="model_checking",
                technique="exhaustive enumeration of all placements (multisets) of <= 4 tagging-directive instances over 11 schema-side location kinds x 22 request spellings; non-commuting tagger hooks; a composition model predicts final values and the exact enter/exit hook log",
                text="Every multiset of <= 4 (thorough 5) directive instances over SCHEMA, SCALAR, OBJECT, FIELD_DEFINITION, ARGUMENT_DEFINITION, INTERFACE, UNION, ENUM, ENUM_VALUE, INPUT_OBJECT, INPUT_FIELD_DEFINITION is cooked into a real engine (two, three or four instances on one element included), and queried with the argument as literal, variable and variable nested in an object literal, a scalar argument, 0-2 query-side field directives, and object / interface / union / enum results. Each hook tags the value on the way in and out (so order and multiplicity are visible in the result) using its own directive argument, and logs enter/exit. The composition model (leaf type hooks -> input field -> input object -> argument -> field hooks, query-side outside schema-side, first declared outermost -> resolver -> output hooks) predicts both the response and the complete hook log; only the two orders the documentation leaves open are accepted."),
    "C14": dict(engine="E3+E5", cat="model_checking",
                technique="exhaustive enumeration of all event sequences up to length L over a 4-letter payload alphabet x subscription documents, each driven through the real subscribe() on a hand-stepped loop under all orders of source production and resolver completion; per-event comparison with the reference executor",
                text="7 subscription documents (plain, alias, fragment, literal / variable / defaulted argument, scalar root) x ALL event sequences of length <= 3 (85; thorough 4: 341) over {well-formed payload, payload provoking a nullable-field error, payload provoking a non-null error, None} x all schedules of the source's production points and the resolvers' suspension points (+ <= 1 mid-run injection); 6 refused requests (validation, syntax, variable coercion, operation selection); thorough: two concurrent streams under all interleavings. Oracle: exactly one response per event, in order, each equal to the reference execution of the selection against that event; the source is started once with the spec-coerced arguments and the stream ends exactly when it ends; refused requests yield one errors-only response and never start the source."),
    "C15": dict(engine="E3", cat="model_checking",
                technique="stateless model checking: every multiset of 2 (3) requests from a pool in flight on one engine under all interleavings of their resolver completions, differential against solo runs on fresh engines, followed by a probe request",
                text="All 2-multisets (thorough: plus a third of the 3-multisets) of a 13-request pool (same text / other variables incl. a @skip nested under a suspending field, same text / other operation name, other documents, failing, raising, bytes spelling, dict context, invalid variables, a shared exception object) are started as tasks on one hand-stepped loop; ALL completion orders of their suspended resolvers are executed. Each response must equal the response of the same request run alone on a fresh engine (data and error multiset), and a probe request issued afterwards must answer as on a fresh engine."),
    "C16": dict(engine="E4", cat="model_checking",
                technique="exhaustive enumeration of all request sequences up to depth k over an 8-letter request alphabet x 5 cache configurations, each history from a freshly cooked engine, position-by-position differential against a fresh cache-less engine",
                text="EVERY sequence of length 4 (thorough 5: 32768) over an alphabet of 8 requests (valid A, failing B, A with other variables flipping a @skip, the two operations of one document, validation-invalid, syntactically broken, bytes spelling of A) x {default LRU(512), lru_cache(1), lru_cache(2), a key-exposing LRU(2), disabled}; plus every length-3 sequence over a second alphabet whose resolvers raise one shared exception object. Every response must equal the response of the same single request on a fresh engine without parsing cache. The key-exposing cache reports the distinct cache states and (state, request) transitions reached."),
    "C17": dict(engine="E4", cat="model_checking",
                technique="exhaustive enumeration of all registration/cooking orders of 2-4 implementation bundles (also at single-decorator granularity), one forked process per history, differential against each bundle built alone in a fresh process",
                text="Bundles share every type, field, scalar, directive and subscription name and differ in behaviour and schema_name. ALL orders of reg(i)/cook(i) events (reg before cook) for 2 bundles (6), 3 bundles (90), thorough 4 bundles (2520), and for 2 bundles with each of the 5 registration kinds as a separate event (924 interleavings); each history runs in its own forked process. Every cooked engine is probed twice in alternation (resolvers, type resolver, scalar input by literal and variable, scalar output, directive, introspection, subscription) and must answer exactly like the same bundle built alone in a fresh process."),
    "C18": dict(engine="E1", cat="model_checking",
                technique="exhaustive enumeration of all short strings over a 14-character alphabet and of all single-token mutations of seed documents x operation names x variables objects x error coercers; envelope invariant checked on every execution",
                text="Every string of length <= 4 (thorough 5) over {}a ():$\"1.@#\\n, every single-token deletion/duplication/replacement of 6 seed documents, byte spellings (BOM, NUL, invalid UTF-8), nesting depth 50/500/5000, x 4 error coercers x operation names x 9 variables objects. Invariant: never raises, dict with data, errors absent or non-empty with well-formed entries and in-text locations, syntax errors / failed operation selection run nothing, custom coercer awaited exactly once per error and its value used."),
}

ENGINES = [
    {"name": "E1 rewrite-BFS / exhaustive input enumeration", "path": "vf/rewrite.py, vf/explore.py",
     "kind_free_text": "explicit-state breadth-first search over canonical inputs; transitions = catalogue rewrites applied at every position; invariant evaluated by running the real engine in every state"},
    {"name": "E2 fault enumeration", "path": "vf/props/c02.py",
     "kind_free_text": "every fault point x failure kind (singles, pairs, triples) x nullability layouts"},
    {"name": "E3 schedule explorer", "path": "vf/sched.py",
     "kind_free_text": "stateless model checking of the real engine on a hand-stepped asyncio event loop: all completion orders of pending resolver futures (+ batched completions, mid-run injections), replay-deterministic"},
    {"name": "E4 history explorer", "path": "vf/props/c16.py, vf/props/c17.py",
     "kind_free_text": "all operation sequences up to depth k from fresh initial states, differential against a history-free reference"},
    {"name": "E5 reference model", "path": "vf/model/",
     "kind_free_text": "June-2018 validation (29 rules), input/result coercion and execution semantics written from the specification"},
]


def main():
    props = [json.loads(l) for l in open(os.path.join(VERIF, "properties.jsonl"))]
    checks = []
    for p in props:
        pid = p["id"]
        c = CHECKS.get(pid)
        if not c or not os.path.exists(os.path.join(VERIF, "vf", "props", pid.lower() + ".py")):
            continue
        checks.append({
            "property_id": pid,
            "quick_cmd": "./check %s --tier quick" % pid,
            "thorough_cmd": "./check %s --tier thorough" % pid,
            "evidence_file": "/verif/evidence/%s.json" % pid,
            "replay_cmd_template": "./check %s --replay {path}" % pid,
            "engine": c["engine"],
            "level_claimed": {"category": c["cat"], "text": c["text"], "design_ref": "DESIGN.md section 4, " + pid},
            "level_note": NOTE,
            "technique": c["technique"],
        })
    claimed = {c["property_id"] for c in checks}
    for e in ENGINES:
        e["serves_properties"] = sorted(pid for pid in claimed if any(tag in CHECKS[pid]["engine"] for tag in [e["name"].split()[0]]))
    m = {
        "version": 1,
        "setup_cmd": "./setup.sh",
        "hooks": {
            "guard": "none (no source hooks: the upstream seam LIBGRAPHQLPARSER_DIR loads a parser stand-in from /verif/build)",
            "enable": "checks import tartiflette from /repo's working tree with LIBGRAPHQLPARSER_DIR=/verif/build (vf/boot.py); nothing in /repo is rebuilt or patched",
            "baseline_off_cmd": "cd /repo && /venv/bin/python -m pytest -ra -q -p no:cacheprovider --timeout=900 --continue-on-collection-errors",
            "source_commits": [],
            "add_only": True,
        },
        "engines": ENGINES,
        "checks": checks,
        "notes": "One entry point: ./check <ID> [--tier quick|thorough] [--replay FILE]. Exit 0 held / 1 VIOLATION / 2 MACHINERY (the check itself is inconsistent). known_findings.json lists open findings (KNOWN-FINDING lines) and fixed ones (suppress nothing).",
        "not_applicable": [
            {"property_id": p["id"], "reason": "check not yet built (its model-checking design is DESIGN.md section 4); not claimed"}
            for p in props if p["id"] not in claimed],
    }
    with open(os.path.join(VERIF, "MANIFEST.json"), "w") as f:
        json.dump(m, f, indent=1)
    print("MANIFEST.json: %d checks, %d not_applicable" % (len(checks), len(m["not_applicable"])))


if __name__ == "__main__":
    main()
