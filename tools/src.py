#!/usr/bin/env python3
"""Print python sources with docstrings and blank lines stripped (reading aid)."""
import sys, re
for f in sys.argv[1:]:
    src = open(f).read()
    src = re.sub(r'"""(?:.|\n)*?"""', '', src)
    src = re.sub(r'\n\s*\n+', '\n', src)
    print("=== " + f)
    print(src)
