#!/bin/sh
# Re-runs every quick check against /repo itself so that the committed evidence/ files describe quick runs on the unchanged tree.
cd "$(dirname "$0")/.." || exit 2
rc=0
for id in C01 C02 C03 C04 C05 C06 C07 C08 C09 C10 C11 C12 C13 C14 C15 C16 C17 C18; do
  ./check "$id" --tier quick 2>&1 | grep -E "^(VIOLATION|MACHINERY|KNOWN-FINDING|C[0-9]+ quick)" | cut -c1-200 || rc=1
done
tools/validate.sh
exit $rc
