#!/bin/sh
# usage: tools/verify_seed.sh <worktree> <seed-id> <property> <check ids...>
# confirms a sub-agent's seeded change (baseline still passes, demo fails with / passes without), stores it under
# /verif/seeded/<seed-id>/ and runs the given quick checks against it (applied to /repo, reverted afterwards).
wt="$1"; sid="$2"; prop="$3"; shift 3
out="/verif/seeded/$sid"; mkdir -p "$out"
cp "$wt/SEED/patch.diff" "$wt/SEED/demo.py" "$out/" || exit 3
[ -f "$wt/SEED/README.md" ] && cp "$wt/SEED/README.md" "$out/README.md"
base=$(cd "$wt" && /venv/bin/python -m pytest -q -p no:cacheprovider --timeout=900 --continue-on-collection-errors 2>&1 | tail -1)
/venv/bin/python "$out/demo.py" "$wt" >"$out/demo_with_change.txt" 2>&1; with=$?
/venv/bin/python "$out/demo.py" /repo >"$out/demo_without_change.txt" 2>&1; without=$?
echo "baseline: $base"; echo "demo with change: exit $with; without: exit $without"
# the checks honour VERIF_REPO: run them against the worktree that carries the change (equivalent to applying the patch to /repo,
# which is what `git -C /repo apply seeded/<id>/patch.diff && ./check <ID>; git -C /repo checkout -- .` does)
git -C /repo apply --check "$out/patch.diff" || { echo "patch does not apply to /repo"; exit 3; }
results=""
for id in "$@"; do
  log=$(VERIF_REPO="$wt" /verif/check "$id" --tier quick 2>&1)
  r=$(echo "$log" | grep -c "^VIOLATION property=$id")
  first=$(echo "$log" | grep -A2 "^VIOLATION" | head -3 | cut -c1-300)
  echo "check $id: $r violation line(s)"; echo "$first"
  results="$results \"$id\": $r,"
done
cat > "$out/meta.json" <<META
{
 "seed": "$sid",
 "property": "$prop",
 "origin": "independent sub-agent given only the property text, a scratch worktree and the parser kit",
 "baseline_with_change": "$base",
 "demo_exit_with_change": $with,
 "demo_exit_without_change": $without,
 "checks_run": {${results%,}},
 "what_it_needs": "see README.md"
}
META
cat "$out/meta.json"
