#!/bin/sh
# Conformance of the parser stand-in (vf/gqlparse.py) with what was written against the real libgraphqlparser.
# Not a property check.  Expected on the current tree: structural equality True; unit 1396 passed / 4 failed (2 byte-exact JSON
# whitespace comparisons, 2 tests using a mock API removed in Python 3.12); functional 6530 passed / 2 failed (both expect an
# impossible inline fragment to be accepted, see DESIGN 9.2).
cd /repo || exit 2
export PYTHONDONTWRITEBYTECODE=1 PYTHONPATH=/verif PYTHONHASHSEED=0
/venv/bin/python - <<'PY'
import sys, json, re
sys.path.insert(0, "/verif")
from vf import gqlparse
src = open("/repo/tests/unit/language/parsers/libgraphqlparser/test_parser.py").read()
m = re.search(r"b'(\{\"kind\":\"Document\".*?)',", src, re.S)
print("JSON recorded from the C library == stand-in output:", json.loads(m.group(1)) == gqlparse.parse_json_ast(b"{ a { a1 a2 } }"))
PY
/venv/bin/python -m pytest -p vf.pytest_shim tests/unit -p no:cacheprovider --timeout=120 -o asyncio_mode=auto -q 2>&1 | tail -1
/venv/bin/python -m pytest -p vf.pytest_shim tests/functional -p no:cacheprovider --timeout=300 -o asyncio_mode=auto -q 2>&1 | tail -1
