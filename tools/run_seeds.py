#!/usr/bin/env python3
"""Re-runs every seeded change under /verif/seeded against the current /repo HEAD and the current checks.

For each seeded/<id>/: scratch worktree of /repo HEAD under /tmp/wt/seedrun, `git apply patch.diff`, baseline (must still report
641 passed), demo.py with and without the change, then the quick check(s) with VERIF_REPO pointing at the worktree.  Updates
meta.json.  /repo itself is never touched.   usage: tools/run_seeds.py [--all-checks] [ids...]
"""
import json
import os
import subprocess
import sys

VERIF = os.path.dirname(os.path.dirname(os.path.abspath(__file__)))
WT = "/tmp/wt/seedrun"


def sh(cmd, **kw):
    return subprocess.run(cmd, stdout=subprocess.PIPE, stderr=subprocess.STDOUT, text=True, **kw)


def main():
    args = [a for a in sys.argv[1:] if not a.startswith("--")]
    all_checks = "--all-checks" in sys.argv
    seeds = sorted(d for d in os.listdir(os.path.join(VERIF, "seeded")) if os.path.isdir(os.path.join(VERIF, "seeded", d)))
    if args:
        seeds = [s for s in seeds if any(s.startswith(a) for a in args)]
    if not os.path.isdir(WT):
        os.makedirs(os.path.dirname(WT), exist_ok=True)
        r = sh(["git", "-C", "/repo", "worktree", "add", "-q", "--detach", WT, "HEAD"])
        if r.returncode:
            raise SystemExit(r.stdout)
    head = sh(["git", "-C", "/repo", "rev-parse", "HEAD"]).stdout.strip()
    props = [json.loads(l)["id"] for l in open(os.path.join(VERIF, "properties.jsonl"))]
    for s in seeds:
        d = os.path.join(VERIF, "seeded", s)
        meta = json.load(open(os.path.join(d, "meta.json")))
        sh(["git", "-C", WT, "checkout", "-q", "--detach", head])
        sh(["git", "-C", WT, "checkout", "--", "."])
        r = sh(["git", "-C", WT, "apply", os.path.join(d, "patch.diff")])
        if r.returncode:
            meta["applies_to_head"] = False
            print(s, "PATCH DOES NOT APPLY", r.stdout[:200])
            json.dump(meta, open(os.path.join(d, "meta.json"), "w"), indent=1)
            continue
        meta["applies_to_head"] = True
        meta["repo_head"] = head[:7]
        base = sh(["/venv/bin/python", "-m", "pytest", "-q", "-p", "no:cacheprovider", "--timeout=900", "--continue-on-collection-errors"],
                  cwd=WT).stdout.strip().splitlines()[-1]
        meta["baseline_with_change"] = base
        meta["demo_exit_with_change"] = sh(["/venv/bin/python", os.path.join(d, "demo.py"), WT]).returncode
        meta["demo_exit_without_change"] = sh(["/venv/bin/python", os.path.join(d, "demo.py"), "/repo"]).returncode
        checks = props if all_checks else [meta["property"]]
        det = {}
        for c in checks:
            out = sh([os.path.join(VERIF, "check"), c, "--tier", "quick"], env=dict(os.environ, VERIF_REPO=WT)).stdout
            det[c] = sum(1 for l in out.splitlines() if l.startswith("VIOLATION property=%s" % c))
        meta.setdefault("detected_by", {}).update(det)
        meta["checks_run"] = meta["detected_by"]
        meta["ran"] = ("git worktree of /repo HEAD + git apply patch.diff; baseline pytest; demo.py <worktree> / demo.py /repo; "
                       "VERIF_REPO=<worktree> ./check <ID> --tier quick")
        json.dump(meta, open(os.path.join(d, "meta.json"), "w"), indent=1)
        print("%-45s baseline[%s] demo with=%s without=%s detected=%s" % (
            s, "641 passed" in base, meta["demo_exit_with_change"], meta["demo_exit_without_change"],
            {k: v for k, v in det.items() if v} or "NONE"))
    sh(["git", "-C", WT, "checkout", "--", "."])


if __name__ == "__main__":
    main()
