#!/bin/sh
# usage: tools/try_mutant.sh <patch.diff> <ID> [<ID>...]   — applies the patch to /repo, runs quick checks, reverts.
p="$(realpath "$1")"; shift
git -C /repo apply "$p" || { echo "patch does not apply"; exit 3; }
trap 'git -C /repo checkout -- . ' EXIT
for id in "$@"; do
  /verif/check "$id" --tier quick 2>&1 | grep -E "^(VIOLATION|KNOWN|MACHINERY|C[0-9]+ )" | head -6
done
