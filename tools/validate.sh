#!/bin/sh
# validates MANIFEST.json and every evidence file against the harness schemas
python3-vt - <<'PY'
import json, jsonschema, glob
jsonschema.validate(json.load(open("/verif/MANIFEST.json")), json.load(open("/root/.vp/MANIFEST.schema.json")))
es = json.load(open("/root/.vp/EVIDENCE.schema.json"))
for f in sorted(glob.glob("/verif/evidence/*.json")):
    jsonschema.validate(json.load(open(f)), es)
print("manifest + %d evidence files valid" % len(glob.glob("/verif/evidence/*.json")))
PY
