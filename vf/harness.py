"""Builds real tartiflette Engines from schema models, with recording resolvers / scalars / directives (DESIGN 2.7)."""
import asyncio
import itertools

from vf import boot  # noqa: F401  (must come first: makes tartiflette importable)
from vf import schema as S
from vf.data import Scenario, lookup, read_key
from vf.model.coerce import freeze, CustomScalar, INVALID

from tartiflette import Directive, Engine, Resolver, Scalar, Subscription, TypeResolver, create_engine  # noqa: E402
from tartiflette.types.exceptions.tartiflette import TartifletteError  # noqa: E402
from tartiflette.constants import UNDEFINED_VALUE  # noqa: E402
from tartiflette.language.ast import StringValueNode  # noqa: E402

CURRENT = [None]  # fallback scenario when the request context is not a Scenario
_names = itertools.count()
_LOOP = [None]


def loop():
    if _LOOP[0] is None:
        _LOOP[0] = asyncio.new_event_loop()
    return _LOOP[0]


def run(coro):
    return loop().run_until_complete(coro)


def scenario_of(ctx):
    if isinstance(ctx, Scenario):
        return ctx
    if isinstance(ctx, dict) and isinstance(ctx.get("scn"), Scenario):
        return ctx["scn"]
    s = getattr(ctx, "scn", None)
    if isinstance(s, Scenario):
        return s
    return CURRENT[0]


class UserError(TartifletteError):
    """a library-derived exception raised by resolvers (C02 iv)"""


class CtorError(TartifletteError):
    """a library-derived exception whose constructor signature differs from Exception.args (copy.copy cannot rebuild it)"""

    def __init__(self, where, code):
        super().__init__("dev message ctor", user_message="ctor user message %s" % (where,), extensions={"code": code, "where": where})
        self.where = where


SHARED_ERROR = None
SHARED_PLAIN_ERROR = None
SHARED_ERROR_2 = None


def fresh_shared_errors():
    """one exception *object* that several resolvers / requests raise (a module-level constant in user code)"""
    global SHARED_ERROR, SHARED_PLAIN_ERROR, SHARED_ERROR_2
    SHARED_ERROR = UserError("shared dev message", user_message="shared user message", extensions={"code": "SHARED"})
    SHARED_PLAIN_ERROR = ValueError("shared plain error")
    SHARED_ERROR_2 = UserError("second shared dev message", user_message="second shared user message", extensions={"code": "SHARED2"})


fresh_shared_errors()


class UpstreamError(Exception):
    """a plain (non library) exception carrying a non-string `message` attribute, like many client libraries' errors"""

    def __init__(self, body):
        super().__init__("upstream failure")
        self.message = body
        self.args = ("upstream failure", 17)


class BusinessError(Exception):
    """the documented custom-error recipe: not a library error, but an exception that knows how to coerce itself (it has a
    `coerce_value` method and neither `path` nor `locations` attributes)"""

    def __init__(self, text, code):
        super().__init__(text)
        self.text = text
        self.code = code

    def coerce_value(self, *_args, path=None, locations=None, **_kwargs):
        locs = []
        try:
            for loc in locations or []:
                locs.append(loc.collect_value())
        except (AttributeError, TypeError):
            pass
        return {"message": self.text, "path": path, "locations": locs, "extensions": {"code": self.code}}


def forget(name):
    """memory hygiene only: drop a schema name that no later history will use (private registry attribute, best effort)"""
    try:
        from tartiflette.schema.registry import SchemaRegistry
        SchemaRegistry._schemas.pop(name, None)
    except Exception:  # noqa
        pass


def fresh_name(prefix="vf"):
    return "%s_%d" % (prefix, next(_names))


def make_resolver(fq):
    async def resolver(parent, args, ctx, info):
        scn = scenario_of(ctx)
        path = tuple(info.path.as_list())
        scn.counters["resolver"] += 1
        scn.log.append((path, id(parent), freeze(args)))
        scn.events.append(("start", path))
        try:
            if scn.sched is not None and (scn.suspend is None or path in scn.suspend):
                await scn.sched.point(("r",) + path)
            fault = scn.faults.get(path)
            if fault == "raise":
                raise Exception("boom at %s" % (list(path),))
            if fault == "raise_te":
                raise UserError("dev message", user_message="user message %s" % (list(path),),
                                extensions={"code": "E42", "where": list(path)})
            if fault == "raise_shared":
                raise SHARED_ERROR
            if fault == "raise_shared_plain":
                raise SHARED_PLAIN_ERROR
            if fault == "raise_te_ctor":
                raise CtorError(list(path), "CTOR")
            if fault == "raise_multi":
                from tartiflette.types.exceptions.tartiflette import MultipleException
                raise MultipleException([UserError("dev-%d" % k, user_message="problem %d at %s" % (k, list(path)),
                                                   extensions={"code": "M%d" % k}) for k in range(3)])
            if fault == "raise_multi_shared":
                # several long-lived library errors reported at once by user code
                from tartiflette.types.exceptions.tartiflette import MultipleException
                raise MultipleException([SHARED_ERROR, SHARED_ERROR_2])
            if fault == "raise_te_enriched":
                # a library error built without extensions, enriched in place before being raised (its own dict, it should think)
                from tartiflette.types.exceptions import TartifletteError
                err = TartifletteError("forbidden at %s" % (list(path),))
                err.extensions["code"] = "FORBIDDEN"
                err.extensions["who"] = getattr(scn, "label", None) or "someone"
                raise err
            if fault == "raise_keyerror":
                import datetime
                raise KeyError(datetime.date(1999, 12, 31))
            if fault == "raise_coercible":
                raise BusinessError("business rule at %s" % (list(path),), "BIZ")
            if fault == "raise_msgattr":
                raise UpstreamError({"code": "not_found", "where": list(path)})
            if fault == "return_exc":
                return Exception("returned at %s" % (list(path),))
            if fault == "none":
                return None
            if fault == "value":
                return scn.fault_values[path]
            if path in scn.overrides:
                return scn.overrides[path]
            return lookup(parent, info.field_name)
        finally:
            scn.events.append(("finish", path))

    resolver.__name__ = "r_" + fq.replace(".", "_")
    return resolver


def _type_resolver(key):
    def tr(result, ctx, info, abstract_type):
        scn = scenario_of(ctx)
        if scn is not None:
            scn.counters["type_resolver"] += 1
        return read_key(result, key)

    return tr


class TagScalar:
    """custom scalar `Tag` (reference semantics: vf.model.coerce.CustomScalar)"""

    def coerce_output(self, value):
        r = CustomScalar.coerce_output(value)
        if r is INVALID:
            raise TypeError("Tag cannot represent %r" % (value,))
        return r

    def coerce_input(self, value):
        r = CustomScalar.coerce_input(value)
        if r is INVALID:
            raise TypeError("Tag cannot represent %r" % (value,))
        return r

    def parse_literal(self, ast):
        if isinstance(ast, StringValueNode):
            return "T:" + ast.value
        return UNDEFINED_VALUE


class PassDirective:
    """implementation given to every custom directive of a schema model: counts, passes through"""

    def __init__(self, name):
        self.name = name

    def _hit(self, ctx, kind):
        scn = scenario_of(ctx)
        if scn is not None:
            scn.counters["hook"] += 1
            scn.events.append(("hook", self.name, kind))

    async def _susp(self, ctx, kind, key):
        scn = scenario_of(ctx)
        if scn is not None and scn.sched is not None and scn.suspend_hooks:
            await scn.sched.point(("h", self.name, kind, key))

    async def on_argument_execution(self, directive_args, next_directive, parent_node, argument_definition_node,
                                    argument_node, value, ctx):
        self._hit(ctx, "argument")
        await self._susp(ctx, "argument", argument_definition_node.name.value)
        if value == 1313:  # an argument guard refusing a value with the application's long-lived error constant
            raise SHARED_ERROR
        return await next_directive(parent_node, argument_definition_node, argument_node, value, ctx)

    async def on_post_input_coercion(self, directive_args, next_directive, parent_node, value, ctx):
        self._hit(ctx, "input")
        return await next_directive(parent_node, value, ctx)

    async def on_field_execution(self, directive_args, next_resolver, parent, args, ctx, info):
        self._hit(ctx, "field")
        return await next_resolver(parent, args, ctx, info)

    async def on_pre_output_coercion(self, directive_args, next_directive, value, ctx, info):
        self._hit(ctx, "output")
        return await next_directive(value, ctx, info)

    async def on_field_collection(self, directive_args, next_directive, field_node, ctx):
        self._hit(ctx, "field-collection")
        return await next_directive(field_node, ctx)

    async def on_fragment_spread_collection(self, directive_args, next_directive, fragment_spread_node, ctx):
        self._hit(ctx, "spread-collection")
        return await next_directive(fragment_spread_node, ctx)

    async def on_inline_fragment_collection(self, directive_args, next_directive, inline_fragment_node, ctx):
        self._hit(ctx, "inline-collection")
        return await next_directive(inline_fragment_node, ctx)


def make_source(fq):
    """subscription source: yields scn.source_events in order, one scheduling point before each"""
    async def source(parent, args, ctx, info):
        scn = scenario_of(ctx)
        scn.counters["source"] += 1
        scn.events.append(("source-start", fq, freeze(args)))
        live = {}
        for i, ev in enumerate(list(scn.source_events)):
            if scn.sched is not None:
                await scn.sched.point(("s", i))
            scn.events.append(("source-yield", i))
            if getattr(scn, "live_object", False) and isinstance(ev, dict):
                # one live object updated in place and yielded again (a scoreboard, a refreshed model instance): legal because an
                # async generator stays suspended at its `yield` until the consumer asks for the next event
                live.clear()
                live.update(ev)
                yield live
            else:
                yield ev
        scn.events.append(("source-end", fq))

    return source


def register(schema, name, resolvers="all", typecfg=None, subscriptions=None, skip_scalars=(), directive_impl=None):
    """apply the decorators for a schema model under schema_name `name`"""
    typecfg = typecfg or {}
    for td in schema.types:
        if td.kind == "OBJECT":
            for f in td.fields:
                fq = "%s.%s" % (td.name, f.name)
                if resolvers == "all" or fq in resolvers:
                    kw = {}
                    if fq in typecfg.get("field", ()):
                        kw["type_resolver"] = _type_resolver("_t_field")
                    if typecfg.get("resolver_kwargs_all"):
                        kw.update(typecfg["resolver_kwargs_all"])
                    extra = (typecfg.get("resolver_kwargs") or {}).get(fq)
                    if extra:
                        kw.update(extra)
                    Resolver(fq, schema_name=name, **kw)(make_resolver(fq))
        elif td.kind == "SCALAR" and td.name not in skip_scalars:
            Scalar(td.name, schema_name=name)(TagScalar())
        if td.kind in ("INTERFACE", "UNION") and td.name in typecfg.get("type", ()):
            TypeResolver(td.name, schema_name=name)(_type_resolver("_t_type"))
    for d in schema.directives:
        impl = (directive_impl or {}).get(d.name)
        if impl is False:  # declaration-only directive: no implementation registered (legal; nothing to call)
            continue
        Directive(d.name, schema_name=name)(impl or PassDirective(d.name))
    if subscriptions is None and schema.subscription and schema.type(schema.subscription):
        subscriptions = {"%s.%s" % (schema.subscription, f.name): make_source("%s.%s" % (schema.subscription, f.name))
                         for f in schema.type(schema.subscription).fields}
    for fq, gen in (subscriptions or {}).items():
        Subscription(fq, schema_name=name)(gen)


async def build_engine_async(schema, sdl=None, resolvers="all", typecfg=None, name=None, subscriptions=None,
                             directive_impl=None, **engine_kwargs):
    name = name or fresh_name()
    typecfg = typecfg or {}
    register(schema, name, resolvers, typecfg, subscriptions, directive_impl=directive_impl)
    if typecfg.get("engine"):
        engine_kwargs["custom_default_type_resolver"] = _type_resolver("_t_engine")
    route = engine_kwargs.pop("route", "create_engine")
    text = sdl if sdl is not None else S.print_sdl(schema)
    if route == "ctor":  # everything given to the constructor, a bare cook()
        from tartiflette import Engine
        e = Engine(text, schema_name=name, **engine_kwargs)
        await e.cook()
        return e
    if route == "cook":  # a bare constructor, everything given to cook()
        from tartiflette import Engine
        e = Engine()
        await e.cook(text, schema_name=name, **engine_kwargs)
        return e
    return await create_engine(text, schema_name=name, **engine_kwargs)


def build_engine(schema, **kw):
    return run(build_engine_async(schema, **kw))


def execute(engine, text, scn, operation_name=None, variables=None, context="scn", initial_value="root"):
    """one real request; returns the response dict (or raises whatever execute raises)"""
    scn.reset()
    CURRENT[0] = scn
    ctx = scn if context == "scn" else context
    root = scn.root if initial_value == "root" else initial_value
    return run(engine.execute(text, operation_name=operation_name, context=ctx, variables=variables,
                              initial_value=root))


def subscribe_all(engine, text, scn, operation_name=None, variables=None, limit=1000):
    """drive engine.subscribe to exhaustion; returns the list of yielded responses"""
    scn.reset()
    CURRENT[0] = scn

    async def go():
        out = []
        async for r in engine.subscribe(text, operation_name=operation_name, context=scn, variables=variables,
                                        initial_value=scn.root):
            out.append(r)
            if len(out) >= limit:
                break
        return out

    return run(go())
