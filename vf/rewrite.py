"""E1: rewrite catalogues over the document model (DESIGN 2.3, Appendix B.1) and the bounded BFS driver.

A rewrite *proposes* documents; E5's validator certifies them.  Every rewrite is applied at every position where it
is applicable.  `neighbours(schema, document)` yields (rewrite-kind, new document).
"""
from dataclasses import replace

from vf import doc
from vf.doc import (Field, Spread, Inline, Operation, Fragment, Directive, Arg, Var, VarDef, BoolV, IntV, StrV, EnumV,
                    NullV, ListV, ObjV, Document, named_of)


# ---- navigation ----------------------------------------------------------------------------------------------------------
def _children(node):
    if isinstance(node, Field):
        return node.sel
    if isinstance(node, (Inline, Operation, Fragment)):
        return node.sel
    return None


def get_container(document, path):
    """path = (def index, i0, i1, ...) designates the *selection set* of the node reached by following the indices"""
    node = document.defs[path[0]]
    for i in path[1:]:
        node = node.sel[i]
    return node


def set_container_sel(document, path, new_sel):
    def rec(node, rest):
        if not rest:
            return replace(node, sel=tuple(new_sel))
        i = rest[0]
        child = rec(node.sel[i], rest[1:])
        return replace(node, sel=node.sel[:i] + (child,) + node.sel[i + 1:])

    d = rec(document.defs[path[0]], path[1:])
    return replace(document, defs=document.defs[:path[0]] + (d,) + document.defs[path[0] + 1:])


def scope_of_field(schema, scope, f):
    if scope is None:
        return None
    if f.name == "__typename":
        return None
    fd = schema.field_def(scope, f.name)
    if fd is None:
        return None
    n = named_of(fd.type)
    return n if schema.is_composite(n) else None


def containers(schema, document):
    """yield (path, container node, scope type name) for every selection set in the document"""
    out = []

    def rec(node, path, scope):
        out.append((path, node, scope))
        for i, s in enumerate(node.sel):
            if isinstance(s, Field):
                if s.sel is not None:
                    rec(s, path + (i,), scope_of_field(schema, scope, s))
            elif isinstance(s, Inline):
                rec(s, path + (i,), s.on if s.on else scope)

    for di, d in enumerate(document.defs):
        if isinstance(d, Operation):
            rec(d, (di,), schema.root(d.kind))
        elif isinstance(d, Fragment):
            rec(d, (di,), d.on)
    return out


def reaching_ops(document, def_index):
    """indices of operations from which definition def_index is reachable (itself if it is an operation)"""
    d = document.defs[def_index]
    if isinstance(d, Operation):
        return [def_index]
    spreads = {}

    def names(sel, acc):
        for s in sel:
            if isinstance(s, Spread):
                acc.add(s.name)
            elif isinstance(s, Field):
                if s.sel:
                    names(s.sel, acc)
            else:
                names(s.sel, acc)
        return acc

    for i, x in enumerate(document.defs):
        if isinstance(x, (Operation, Fragment)):
            spreads[i] = names(x.sel, set())
    fidx = {}
    for i, x in enumerate(document.defs):
        if isinstance(x, Fragment):
            fidx.setdefault(x.name, i)
    out = []
    for i, x in enumerate(document.defs):
        if not isinstance(x, Operation):
            continue
        seen, todo = set(), list(spreads[i])
        while todo:
            n = todo.pop()
            j = fidx.get(n)
            if j is None or j in seen:
                continue
            seen.add(j)
            todo.extend(spreads[j])
        if def_index in seen:
            out.append(i)
    return out


def fresh(document, base):
    used = set()
    text, _ = doc.print_doc(document)
    n = 0
    while True:
        cand = "%s%d" % (base, n)
        if cand not in text:
            return cand
        n += 1


def min_literal(schema, t):
    """a minimal valid literal for input type t"""
    if t[0] == "nn":
        return min_literal(schema, t[1])
    if t[0] == "list":
        return ListV(())
    td = schema.type(t[1])
    if td.kind == "ENUM":
        return EnumV(td.values[0].name)
    if td.kind == "INPUT_OBJECT":
        return ObjV(tuple((f.name, min_literal(schema, f.type)) for f in td.fields if f.type[0] == "nn" and f.default is None))
    return {"Int": IntV("1"), "Float": IntV("1"), "String": StrV("s"), "Boolean": BoolV(True), "ID": StrV("i")}.get(
        td.name, StrV("t"))


def new_field(schema, scope, fd):
    args = tuple(Arg(a.name, min_literal(schema, a.type)) for a in fd.args if a.type[0] == "nn" and a.default is None)
    n = named_of(fd.type)
    sel = (Field("__typename"),) if schema.is_composite(n) else None
    return Field(fd.name, None, args, (), sel)


def overlapping_types(schema, scope):
    poss = set(schema.possible_types(scope))
    out = []
    for t in schema.types:
        if t.kind in ("OBJECT", "INTERFACE", "UNION") and poss & set(schema.possible_types(t.name)):
            out.append(t.name)
    return out


# ---- catalogue V -----------------------------------------------------------------------------------------------------------
_GOOD_LEAF = {"Int": IntV("1"), "Float": IntV("2"), "String": StrV("s"), "ID": IntV("3"), "Boolean": BoolV(True), "Tag": StrV("t")}


def legal_literals(schema, t, depth=0):
    """a few legal literals for input type t (typeref tuple): [] when none can be built"""
    from vf.doc import NullV, ListV, ObjV
    if t[0] == "nn":
        return [x for x in legal_literals(schema, t[1], depth) if not isinstance(x, NullV)]
    out = [NullV()]
    if t[0] == "list":
        items = legal_literals(schema, t[1], depth + 1)
        non_null = [x for x in items if not isinstance(x, NullV)]
        if non_null:
            g = non_null[0]
            out += [ListV((g,)), ListV(()), g]            # one item, empty, a single value for the list
            if any(isinstance(x, NullV) for x in items):
                out.append(ListV((g, NullV())))          # a null item where items are nullable
        return out
    td = schema.type(t[1])
    if td is None:
        return []
    if td.kind == "SCALAR":
        if t[1] in _GOOD_LEAF:
            out.append(_GOOD_LEAF[t[1]])
    elif td.kind == "ENUM":
        out.append(EnumV(td.values[0].name))
    elif td.kind == "INPUT_OBJECT" and depth < 2:
        required = [f for f in td.fields if f.type[0] == "nn" and f.default is None]
        base = []
        ok = True
        for f in required:
            vals = legal_literals(schema, f.type, depth + 1)
            if not vals:
                ok = False
                break
            base.append((f.name, vals[0]))
        if ok:
            out.append(ObjV(tuple(base)))
            if len(base) > 1:
                out.append(ObjV(tuple(reversed(base))))   # fields written in another order than they are declared
            for f in td.fields:
                if f not in required and f.type[0] != "nn":
                    out.append(ObjV(tuple(base) + ((f.name, NullV()),)))
    return out


DEFAULT_KINDS = ("R1", "R2", "R3", "R4", "R5", "R6", "R8", "R9", "R10", "R11", "R13")
ALL_KINDS = DEFAULT_KINDS + ("R14", "R15", "R16")
# lighter variants used as *second* rewrite in the quick tiers: R2L (fresh alias, alias = name of a sibling selection),
# R8L (@skip/@include with literals, one required and one defaulted variable)


def neighbours(schema, document, kinds=None):
    """yield (kind, document') — validity is decided by the caller (E5 certification)"""
    def want(k):
        return (k in DEFAULT_KINDS) if kinds is None else (k in kinds)

    conts = containers(schema, document)
    for path, node, scope in conts:
        sel = node.sel
        td = schema.type(scope) if scope else None
        # R1 add a field of the scope's type / R11 __typename
        if want("R1") and td is not None and td.kind in ("OBJECT", "INTERFACE"):
            for fd in td.fields:
                yield "R1", set_container_sel(document, path, sel + (new_field(schema, scope, fd),))
        if want("R11") and td is not None:
            yield "R11", set_container_sel(document, path, sel + (Field("__typename"),))
        # R6 spread an existing fragment once more
        if want("R6") and scope is not None:
            for f in document.fragments:
                if schema.is_composite(f.on) and set(schema.possible_types(scope)) & set(schema.possible_types(f.on)):
                    yield "R6", set_container_sel(document, path, sel + (Spread(f.name),))
                    yield "R6", set_container_sel(document, path, (Spread(f.name),) + sel)
        for i, s in enumerate(sel):
            def put(*new):
                return set_container_sel(document, path, sel[:i] + tuple(new) + sel[i + 1:])

            if isinstance(s, Field) and want("R2L") and not want("R2"):
                yield "R2L", put(replace(s, alias=fresh(document, "z")))
                for other in sel:
                    if isinstance(other, Field) and other is not s and other.key != s.key:
                        yield "R2L", put(replace(s, alias=other.key))
                        yield "R2L", put(replace(s, alias=other.name))
            if want("R8L") and not want("R8") and not any(d.name in ("skip", "include") for d in s.dirs):
                for dn in ("skip", "include"):
                    for lit in (True, False):
                        yield "R8L", put(replace(s, dirs=s.dirs + (Directive(dn, (Arg("if", BoolV(lit)),)),)))
                ops = reaching_ops(document, path[0])
                if ops:
                    vn = fresh(document, "b")
                    for dn, vtype, default in (("skip", "Boolean!", None), ("include", "Boolean", BoolV(False))):
                        d2 = put(replace(s, dirs=s.dirs + (Directive(dn, (Arg("if", Var(vn)),)),)))
                        defs = list(d2.defs)
                        for oi in ops:
                            defs[oi] = replace(defs[oi], vars=defs[oi].vars + (VarDef(vn, vtype, default),), shorthand=False)
                        yield "R8L", replace(d2, defs=tuple(defs))
            if isinstance(s, Field):
                # R2 aliases
                if want("R2"):
                    yield "R2", put(replace(s, alias=fresh(document, "z")))
                    if td is not None and td.kind in ("OBJECT", "INTERFACE"):
                        for fd in td.fields:
                            if fd.name != s.name:
                                yield "R2", put(replace(s, alias=fd.name))
                    if s.alias:
                        yield "R2", put(replace(s, alias=None))
                # R3 duplicates
                if want("R3"):
                    yield "R3", set_container_sel(document, path, sel + (s,))
                    if s.sel is not None:
                        sub = scope_of_field(schema, scope, s)
                        std = schema.type(sub) if sub else None
                        if std is not None and std.kind in ("OBJECT", "INTERFACE"):
                            for fd in std.fields[:3]:
                                yield "R3", set_container_sel(document, path, sel + (replace(s, sel=(new_field(schema, sub, fd),)),))
                        yield "R3", set_container_sel(document, path, sel + (replace(s, sel=(Field("__typename"),)),))
                        if scope is not None:
                            yield "R3", set_container_sel(document, path, sel + (Inline(scope, (), (replace(s, sel=(Field("__typename"),)),)),))
            # R4 wrap in an inline fragment
            if want("R4"):
                yield "R4", put(Inline(None, (), (s,)))
                if scope is not None:
                    for tn in overlapping_types(schema, scope):
                        yield "R4", put(Inline(tn, (), (s,)))
            # R5 extract into a named fragment
            if want("R5") and scope is not None:
                fn = fresh(document, "F")
                d2 = put(Spread(fn))
                yield "R5", replace(d2, defs=d2.defs + (Fragment(fn, scope, (), (s,)),))
                # definition before use
                yield "R5", replace(d2, defs=(Fragment(fn, scope, (), (s,)),) + d2.defs)
            # R8 @skip / @include
            if want("R8") and not any(d.name in ("skip", "include") for d in s.dirs):
                for dn in ("skip", "include"):
                    for lit in (True, False):
                        yield "R8", put(replace(s, dirs=s.dirs + (Directive(dn, (Arg("if", BoolV(lit)),)),)))
                # both directives on one node, in both orders: the node is kept only when neither says no
                for a in (True, False):
                    for b in (True, False):
                        sk, inc = Directive("skip", (Arg("if", BoolV(a)),)), Directive("include", (Arg("if", BoolV(b)),))
                        yield "R8", put(replace(s, dirs=s.dirs + (sk, inc)))
                        yield "R8", put(replace(s, dirs=s.dirs + (inc, sk)))
                ops = reaching_ops(document, path[0])
                if ops:
                    vn = fresh(document, "b")
                    for dn in ("skip", "include"):
                        for vtype, default in (("Boolean!", None), ("Boolean", BoolV(False)), ("Boolean", BoolV(True))):
                            d2 = put(replace(s, dirs=s.dirs + (Directive(dn, (Arg("if", Var(vn)),)),)))
                            defs = list(d2.defs)
                            for oi in ops:
                                defs[oi] = replace(defs[oi], vars=defs[oi].vars + (VarDef(vn, vtype, default),),
                                                   shorthand=False)
                            yield "R8", replace(d2, defs=tuple(defs))
            # R14 pass an argument through a fresh variable (variables flowing through fragments when inside one)
            if want("R14") and isinstance(s, Field) and scope is not None:
                fd = schema.field_def(scope, s.name)
                ops = reaching_ops(document, path[0])
                if fd is not None and ops:
                    for ad in fd.args:
                        if any(a.name == ad.name for a in s.args):
                            continue
                        vn = fresh(document, "v")
                        d2 = put(replace(s, args=s.args + (Arg(ad.name, Var(vn)),)))
                        defs = list(d2.defs)
                        for oi in ops:
                            defs[oi] = replace(defs[oi], vars=defs[oi].vars + (VarDef(vn, doc.type_to_str(ad.type)),), shorthand=False)
                        yield "R14", replace(d2, defs=tuple(defs))
            # R17 add an argument with a legal literal: null for nullable types (lists of non-null items included), lists with and without
            # null items, a single value where a list is declared, input objects with null / omitted fields
            if want("R17") and isinstance(s, Field) and scope is not None:
                fd = schema.field_def(scope, s.name)
                if fd is not None:
                    for ad in fd.args:
                        if any(a.name == ad.name for a in s.args):
                            continue
                        for lit in legal_literals(schema, ad.type):
                            yield "R17", put(replace(s, args=s.args + (Arg(ad.name, lit),)))
            # R15 custom directive on this node (no argument / literal / variable)
            if want("R15") and schema.directive("dq") is not None and not any(d.name == "dq" for d in s.dirs):
                yield "R15", put(replace(s, dirs=s.dirs + (Directive("dq"),)))
                yield "R15", put(replace(s, dirs=s.dirs + (Directive("dq", (Arg("n", IntV("2")), Arg("t", StrV("x")))),)))
                ops = reaching_ops(document, path[0])
                if ops:
                    vn = fresh(document, "d")
                    d2 = put(replace(s, dirs=s.dirs + (Directive("dq", (Arg("n", Var(vn)),)),)))
                    defs = list(d2.defs)
                    for oi in ops:
                        defs[oi] = replace(defs[oi], vars=defs[oi].vars + (VarDef(vn, "Int"),), shorthand=False)
                    yield "R15", replace(d2, defs=tuple(defs))
            # R9 swap neighbours
            if want("R9") and i + 1 < len(sel):
                yield "R9", set_container_sel(document, path, sel[:i] + (sel[i + 1], s) + sel[i + 2:])
            # R13 delete a selection (keeps BFS closed under shrinking; the validator discards empty sets)
            if want("R13") and len(sel) > 1:
                yield "R13", set_container_sel(document, path, sel[:i] + sel[i + 1:])
    # R15 custom directive on definitions ; R16 introspection meta fields at the query root
    if want("R15") and schema.directive("dq") is not None:
        for di, d in enumerate(document.defs):
            if isinstance(d, (Operation, Fragment)) and not any(x.name == "dq" for x in d.dirs):
                nd = replace(d, dirs=d.dirs + (Directive("dq"),))
                if isinstance(d, Operation):
                    nd = replace(nd, shorthand=False)
                yield "R15", replace(document, defs=document.defs[:di] + (nd,) + document.defs[di + 1:])
    if want("R16"):
        for path, node, scope in conts:
            if scope == schema.query and scope is not None:
                yield "R16", set_container_sel(document, path, node.sel + (Field("__schema", None, (), (), (Field("queryType", None, (), (), (Field("name"),)),)),))
                yield "R16", set_container_sel(document, path, node.sel + (Field("__type", None, (Arg("name", StrV("A")),), (), (Field("name"), Field("kind"))),))
                yield "R16", set_container_sel(document, path, (Field("__type", "t", (Arg("name", StrV("Nope")),), (), (Field("name"),)),) + node.sel)
    # R10 add a named operation
    if want("R10"):
        ops = document.operations
        if all(o.name for o in ops) or len(ops) == 1:
            defs = tuple(replace(x, name=x.name or "Main", shorthand=False) if isinstance(x, Operation) else x
                         for x in document.defs)
            nm = fresh(document, "Extra")
            yield "R10", replace(document, defs=defs + (Operation("query", nm, (), (), (Field("__typename"),)),))
            if schema.mutation:
                yield "R10", replace(document, defs=(Operation("mutation", nm, (), (), (Field("__typename"),)),) + defs)


def canon(document):
    return doc.print_doc(document)[0]
