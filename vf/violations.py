"""E1: violation-injecting rewrites X_r (DESIGN 2.3 / Appendix B.2).

`inject(schema, document)` yields (targeted rule, site kind, mutated document).  The rewrites only *propose*; E5's
validator labels every mutated document with the set of rules it really violates.
"""
from dataclasses import replace

from vf import doc, rewrite
from vf.doc import (Field, Spread, Inline, Operation, Fragment, Directive, Arg, Var, VarDef, BoolV, IntV, FloatV, StrV,
                    EnumV, NullV, ListV, ObjV, Document, RawDef, named_of)

LITERALS = [IntV("1"), FloatV("1.5"), StrV("s"), StrV("RED"), BoolV(True), NullV(), EnumV("RED"), EnumV("PURPLE"),
            ListV((IntV("1"),)), ListV(()), ListV((StrV("x"),)), ListV((NullV(),)), ObjV((("a", IntV("1")),)),
            ObjV((("zz", IntV("1")),)), ObjV(()), ObjV((("a", StrV("bad")),)), ObjV((("c", ListV((NullV(),))),))]
VAR_TYPES = ["Int", "Int!", "String", "[Int]", "[Int!]", "[Int!]!", "Boolean", "Color", "P", "ID", "Float", "Tag"]
RAW_DEFS = ["type Zz { a: Int }", "scalar Zz", "schema { query: Query }", "extend type Query { zz: Int }",
            "enum Zz { A }", "input Zz { a: Int }", "directive @zz on FIELD", "interface Zz { a: Int }", "union Zz = A"]


# ---- generic node walking -------------------------------------------------------------------------------------------------
def selection_nodes(schema, document):
    """(container path, index, node, scope type, site kind) for every selection node"""
    out = []
    for path, cont, scope in rewrite.containers(schema, document):
        top = document.defs[path[0]]
        base = "operation" if isinstance(top, Operation) else "fragment"
        for i, s in enumerate(cont.sel):
            nested = len(path) > 1
            inl = any(isinstance(_node_at(document, path[:k + 1]), Inline) for k in range(1, len(path)))
            site = base + ("-inline" if inl else "") + ("-nested" if nested and not inl else "")
            out.append((path, i, s, scope, site))
    return out


def _node_at(document, path):
    node = document.defs[path[0]]
    for i in path[1:]:
        node = node.sel[i]
    return node


def put(document, path, i, *new):
    cont = rewrite.get_container(document, path)
    return rewrite.set_container_sel(document, path, cont.sel[:i] + tuple(new) + cont.sel[i + 1:])


def append(document, path, *new):
    cont = rewrite.get_container(document, path)
    return rewrite.set_container_sel(document, path, cont.sel + tuple(new))


def value_positions(v, prefix=()):
    """all sub-value positions of a value: list of (path, node, kind)"""
    out = [(prefix, v)]
    if isinstance(v, ListV):
        for i, x in enumerate(v.items):
            out.extend(value_positions(x, prefix + (("item", i),)))
    elif isinstance(v, ObjV):
        for i, (n, x) in enumerate(v.fields):
            out.extend(value_positions(x, prefix + (("field", i),)))
    return out


def value_replace(v, path, new):
    if not path:
        return new
    kind, i = path[0]
    if kind == "item":
        items = list(v.items)
        items[i] = value_replace(items[i], path[1:], new)
        return replace(v, items=tuple(items))
    fields = list(v.fields)
    fields[i] = (fields[i][0], value_replace(fields[i][1], path[1:], new))
    return replace(v, fields=tuple(fields))


def site_of_value(owner, path):
    if not path:
        return owner + "-argument"
    kinds = [k for k, _ in path]
    s = owner
    if kinds.count("item") >= 2:
        s += "-nested-list"
    elif "item" in kinds and "field" in kinds:
        s += "-input-field-in-list" if kinds.index("item") < kinds.index("field") else "-list-in-input-field"
    elif "item" in kinds:
        s += "-list-item"
    elif kinds.count("field") >= 2:
        s += "-nested-input-field"
    else:
        s += "-input-field"
    return s


def arg_owners(schema, document):
    """every argument list in the document: (rebuild(new_args) -> document, args tuple, owner kind, top def index)"""
    out = []
    for path, i, s, scope, site in selection_nodes(schema, document):
        if isinstance(s, Field) and s.args:
            out.append((lambda new, path=path, i=i, s=s: put(document, path, i, replace(s, args=tuple(new))), s.args, "field", path[0], site))
        for di, d in enumerate(s.dirs):
            if d.args:
                def rb(new, path=path, i=i, s=s, di=di, d=d):
                    dirs = s.dirs[:di] + (replace(d, args=tuple(new)),) + s.dirs[di + 1:]
                    return put(document, path, i, replace(s, dirs=dirs))
                out.append((rb, d.args, "directive", path[0], site))
    return out


def with_var(document, def_index, vardef):
    """add a variable definition to every operation reaching definition def_index"""
    defs = list(document.defs)
    ops = rewrite.reaching_ops(document, def_index)
    if not ops:
        return None
    for oi in ops:
        defs[oi] = replace(defs[oi], vars=defs[oi].vars + (vardef,), shorthand=False)
    return replace(document, defs=tuple(defs))


# ---- the catalogue -----------------------------------------------------------------------------------------------------------
def first_fields(o):
    return [x for x in o.sel if isinstance(x, Field)]


def inject(schema, document):
    D = document
    ops = D.operations
    frags = D.fragments
    nodes = selection_nodes(schema, D)
    conts = rewrite.containers(schema, D)

    # 5.1.1 executable definitions
    for raw in RAW_DEFS:
        kind = {"type": "ObjectTypeDefinition", "scalar": "ScalarTypeDefinition", "schema": "SchemaDefinition",
                "extend": "TypeExtensionDefinition", "enum": "EnumTypeDefinition", "input": "InputObjectTypeDefinition",
                "directive": "DirectiveDefinition", "interface": "InterfaceTypeDefinition", "union": "UnionTypeDefinition"}[raw.split()[0]]
        yield "5.1.1", "document-end", replace(D, defs=D.defs + (RawDef(kind, raw),))
        yield "5.1.1", "document-start", replace(D, defs=(RawDef(kind, raw),) + D.defs)

    # 5.2.1.1 operation name uniqueness / 5.2.2.1 lone anonymous
    named = replace(D, defs=tuple(replace(x, name=x.name or "Main", shorthand=False) if isinstance(x, Operation) else x for x in D.defs))
    for o in named.operations:
        yield "5.2.1.1", "same-kind", replace(named, defs=named.defs + (Operation(o.kind, o.name, (), (), (Field("__typename"),)),))
        other = "mutation" if o.kind == "query" else "query"
        yield "5.2.1.1", "other-kind", replace(named, defs=(Operation(other, o.name, (), (), (Field("__typename"),)),) + named.defs)
    anon = Operation("query", None, (), (), (Field("__typename"),), shorthand=True)
    yield "5.2.2.1", "anonymous-last", replace(named, defs=named.defs + (anon,))
    yield "5.2.2.1", "anonymous-first", replace(named, defs=(anon,) + named.defs)
    if any(o.name is None for o in ops):
        yield "5.2.2.1", "two-anonymous", replace(D, defs=D.defs + (anon,))
        yield "5.2.2.1", "anonymous-then-named", replace(D, defs=D.defs + (Operation("query", "Other", (), (), (Field("__typename"),)),))

    # 5.2.3.1 single root field (subscriptions)
    for di, o in enumerate(D.defs):
        if isinstance(o, Operation) and o.kind == "subscription":
            root = schema.root("subscription")
            extra_fields = [f for f in schema.type(root).fields if all(not (isinstance(s, Field) and s.name == f.name) for s in o.sel)]
            variants = []
            for f in extra_fields[:1]:
                nf = rewrite.new_field(schema, root, f)
                variants.append(("direct", replace(o, sel=o.sel + (nf,)), ()))
                variants.append(("inline-fragment", replace(o, sel=o.sel + (Inline(None, (), (nf,)),)), ()))
                variants.append(("inline-fragment-typed", replace(o, sel=(Inline(root, (), o.sel + (nf,)),)), ()))
                fn = rewrite.fresh(D, "SF")
                variants.append(("fragment", replace(o, sel=o.sel + (Spread(fn),)), (Fragment(fn, root, (), (nf,)),)))
                variants.append(("fragment-only", replace(o, sel=(Spread(fn),)), (Fragment(fn, root, (), o.sel + (nf,)),)))
                variants.append(("fragment-only-inline-inside", replace(o, sel=(Spread(fn),)),
                                 (Fragment(fn, root, (), (Inline(None, (), o.sel + (nf,)),)),)))
                fn2 = fn + "b"
                variants.append(("fragment-only-two-levels", replace(o, sel=(Spread(fn),)),
                                 (Fragment(fn, root, (), o.sel + (Spread(fn2),)), Fragment(fn2, root, (), (nf,)))))
                if first_fields(o):
                    variants.append(("fragment-only-aliased-twin", replace(o, sel=(Spread(fn),)),
                                     (Fragment(fn, root, (), o.sel + (replace(first_fields(o)[0], alias="twin"),)),)))
            variants.append(("typename", replace(o, sel=o.sel + (Field("__typename"),)), ()))
            first = [s for s in o.sel if isinstance(s, Field)]
            if first:
                variants.append(("aliased-twin", replace(o, sel=o.sel + (replace(first[0], alias="twin"),)), ()))
            for site, o2, extra in variants:
                d2 = replace(D, defs=D.defs[:di] + (o2,) + D.defs[di + 1:] + extra)
                yield "5.2.3.1", site + "|first-operation", d2
                # the offending operation is not the first subscription operation of the document
                d3 = replace(D, defs=(Operation("subscription", "FirstSub", (), (), (rewrite.new_field(schema, root, schema.type(root).fields[0]),)),)
                             + tuple(replace(x, name=x.name or "Main", shorthand=False) if isinstance(x, Operation) else x for x in d2.defs))
                yield "5.2.3.1", site + "|non-first-operation", d3

    # per selection node
    for path, i, s, scope, site in nodes:
        td = schema.type(scope) if scope else None
        if isinstance(s, Field):
            # 5.3.1 fields exist
            yield "5.3.1", site + "|undefined", put(D, path, i, replace(s, name="zzUndefined"))
            # names that merely look like meta fields are not defined either (only __typename, and __schema / __type at the query root)
            if s.sel is None and not s.args:
                yield "5.3.1", site + "|undefined-double-underscore", put(D, path, i, replace(s, name="__zzUndefined"))
                yield "5.3.1", site + "|undefined-double-underscore", put(D, path, i, replace(s, name="__typenam"))
                if scope != schema.query:
                    yield "5.3.1", site + "|meta-field-outside-query-root", put(D, path, i, replace(s, name="__schema", sel=(Field("__typename"),)))
            if td is not None and td.kind == "INTERFACE":
                for pn in schema.possible_types(scope):
                    for f in schema.type(pn).fields:
                        if td.field(f.name) is None:
                            yield "5.3.1", site + "|implementer-only-on-interface", append(D, path, rewrite.new_field(schema, pn, f))
                            break
            if td is not None and td.kind == "OBJECT":
                for other in schema.types:
                    if other.kind == "OBJECT" and other.name != scope:
                        for f in other.fields:
                            if td.field(f.name) is None:
                                yield "5.3.1", site + "|sibling-type-field", append(D, path, rewrite.new_field(schema, other.name, f))
                                break
                        break
            # 5.3.3 leaf selections
            fd = schema.field_def(scope, s.name) if scope else None
            if fd is not None:
                if schema.is_leaf(named_of(fd.type)):
                    yield "5.3.3", site + "|selection-on-leaf", put(D, path, i, replace(s, sel=(Field("__typename"),)))
                    yield "5.3.3", site + "|selection-on-leaf-field", put(D, path, i, replace(s, sel=(Field("x"),)))
                else:
                    yield "5.3.3", site + "|no-selection-on-composite" + ("-list" if "list" in repr(fd.type) else ""), put(D, path, i, replace(s, sel=None))
                # 5.4.2.1 required arguments
                for a in fd.args:
                    if a.type[0] == "nn" and a.default is None and any(x.name == a.name for x in s.args):
                        yield "5.4.2.1", site + "|field", put(D, path, i, replace(s, args=tuple(x for x in s.args if x.name != a.name)))
            # 5.4.1 / 5.4.2
            abstract_tn = s.name == "__typename" and td is not None and td.kind in ("INTERFACE", "UNION")
            yield "5.4.1", site + ("|typename-on-abstract" if abstract_tn else "|field"), put(D, path, i, replace(s, args=s.args + (Arg("zz", IntV("1")),)))
            if s.args:
                yield "5.4.2", site + "|field", put(D, path, i, replace(s, args=s.args + (s.args[0],)))
                yield "5.4.2", site + "|field-other-value", put(D, path, i, replace(s, args=s.args + (replace(s.args[0], value=NullV()),)))
        if isinstance(s, Inline):
            # 5.5.1.2 / 5.5.1.3 on an existing inline fragment
            yield "5.5.1.2", site + "|inline", put(D, path, i, replace(s, on="ZzUndefined"))
            for bad in ("Int", "Color", "P", "Tag"):
                yield "5.5.1.3", site + "|inline-" + bad, put(D, path, i, replace(s, on=bad))
        # wrap the node in an inline fragment with a broken condition
        yield "5.5.1.2", site + "|wrapped", put(D, path, i, Inline("ZzUndefined", (), (s,)))
        yield "5.5.1.3", site + "|wrapped", put(D, path, i, Inline("Color", (), (s,)))
        # 5.5.2.3 spread possible
        if scope is not None:
            poss = set(schema.possible_types(scope))
            for t in schema.types:
                if t.kind in ("OBJECT", "INTERFACE", "UNION") and not (poss & set(schema.possible_types(t.name))) \
                        and t.name not in (schema.query, schema.mutation, schema.subscription):
                    kinds = "%s-in-%s" % (t.kind.lower(), schema.type(scope).kind.lower())
                    yield "5.5.2.3", site + "|inline|" + kinds, append(D, path, Inline(t.name, (), (Field("__typename"),)))
                    fn = rewrite.fresh(D, "NP")
                    d2 = append(D, path, Spread(fn))
                    yield "5.5.2.3", site + "|named|" + kinds, replace(d2, defs=d2.defs + (Fragment(fn, t.name, (), (Field("__typename"),)),))
        # 5.7.x directives on this node
        loc = "field" if isinstance(s, Field) else "spread" if isinstance(s, Spread) else "inline"
        yield "5.7.1", loc, put(D, path, i, replace(s, dirs=s.dirs + (Directive("zzUndefined"),)))
        yield "5.7.1", loc + "-with-args", put(D, path, i, replace(s, dirs=s.dirs + (Directive("zzUndefined", (Arg("if", BoolV(True)),)),)))
        yield "5.7.2", loc + "|type-system-directive", put(D, path, i, replace(s, dirs=s.dirs + (Directive("deprecated"),)))
        if not isinstance(s, Field):
            yield "5.7.2", loc + "|field-only-directive", put(D, path, i, replace(s, dirs=s.dirs + (Directive("dqf"),)))
        else:
            yield "5.7.2", loc + "|operation-only-directive", put(D, path, i, replace(s, dirs=s.dirs + (Directive("dqo"),)))
        yield "5.7.3", loc + "|added-twice", put(D, path, i, replace(s, dirs=s.dirs + (Directive("dq"), Directive("dq"))))
        yield "5.7.3", loc + "|skip-twice", put(D, path, i, replace(s, dirs=s.dirs + (Directive("skip", (Arg("if", BoolV(False)),)),
                                                                                         Directive("skip", (Arg("if", BoolV(False)),)))))
        if s.dirs:
            yield "5.7.3", loc + "|repeated", put(D, path, i, replace(s, dirs=s.dirs + (s.dirs[0],)))
        # 5.4.2.1 on directives: @skip / @include / custom without their required argument
        yield "5.4.2.1", loc + "|skip", put(D, path, i, replace(s, dirs=s.dirs + (Directive("skip"),)))
        yield "5.4.2.1", loc + "|include", put(D, path, i, replace(s, dirs=s.dirs + (Directive("include"),)))
        if isinstance(s, Field):
            yield "5.4.2.1", loc + "|custom-directive", put(D, path, i, replace(s, dirs=s.dirs + (Directive("dr"),)))
        # 5.4.1 / 5.4.2 on directives
        yield "5.4.1", loc + "|directive", put(D, path, i, replace(s, dirs=s.dirs + (Directive("skip", (Arg("if", BoolV(False)), Arg("zz", IntV("1")))),)))
        yield "5.4.2", loc + "|directive", put(D, path, i, replace(s, dirs=s.dirs + (Directive("skip", (Arg("if", BoolV(False)), Arg("if", BoolV(False)))),)))
        # 5.8.3 undefined variable in a directive argument
        yield "5.8.3", site + "|directive-argument", put(D, path, i, replace(s, dirs=s.dirs + (Directive("skip", (Arg("if", Var("zzUndef")),)),)))
        # 5.8.5 nullable Boolean into @skip(if:) ; String into @skip
        for vt in ("Boolean", "String", "[Boolean!]"):
            vn = rewrite.fresh(D, "w")
            d2 = put(D, path, i, replace(s, dirs=s.dirs + (Directive("skip", (Arg("if", Var(vn)),)),)))
            d2 = with_var(d2, path[0], VarDef(vn, vt))
            if d2 is not None:
                yield "5.8.5", site + "|directive-argument|" + vt, d2

    # per selection set
    for path, cont, scope in conts:
        top = D.defs[path[0]]
        site = ("operation" if isinstance(top, Operation) else "fragment") + ("-nested" if len(path) > 1 else "")
        yield "5.5.2.1", site, append(D, path, Spread("ZzUndefinedFragment"))
        # 5.5.2.3 with a fragment that is legally spread elsewhere in the document (the rule is about every spread *site*)
        if scope is not None:
            for f in frags:
                if schema.is_composite(f.on) and not (set(schema.possible_types(scope)) & set(schema.possible_types(f.on))):
                    yield "5.5.2.3", site + "|existing-fragment-last", append(D, path, Spread(f.name))
                    yield "5.5.2.3", site + "|existing-fragment-first", rewrite.set_container_sel(D, path, (Spread(f.name),) + cont.sel)
        yield "5.3.1", site + "|added-undefined", append(D, path, Field("zzUndefined"))
        td = schema.type(scope) if scope else None
        if td is not None and td.kind == "UNION":
            member = schema.type(td.members[0])
            yield "5.3.1", site + "|field-on-union", append(D, path, rewrite.new_field(schema, member.name, member.fields[0]))

    # fragments
    for di, f in enumerate(D.defs):
        if not isinstance(f, Fragment):
            continue
        yield "5.5.1.1", "same-body", replace(D, defs=D.defs + (f,))
        yield "5.5.1.1", "other-body", replace(D, defs=D.defs + (replace(f, sel=(Field("__typename"),)),))
        yield "5.5.1.2", "fragment-definition", replace(D, defs=D.defs[:di] + (replace(f, on="ZzUndefined"),) + D.defs[di + 1:])
        for bad in ("Int", "Color", "P", "Tag"):
            yield "5.5.1.3", "fragment-definition-" + bad, replace(D, defs=D.defs[:di] + (replace(f, on=bad),) + D.defs[di + 1:])
        # 5.5.2.2 cycles
        yield "5.5.2.2", "self|top", replace(D, defs=D.defs[:di] + (replace(f, sel=f.sel + (Spread(f.name),)),) + D.defs[di + 1:])
        yield "5.5.2.2", "self|inline", replace(D, defs=D.defs[:di] + (replace(f, sel=f.sel + (Inline(None, (), (Spread(f.name),)),)),) + D.defs[di + 1:])
        gname = rewrite.fresh(D, "CY")
        yield "5.5.2.2", "mutual|top", replace(D, defs=D.defs[:di] + (replace(f, sel=f.sel + (Spread(gname),)),) + D.defs[di + 1:]
                                               + (Fragment(gname, f.on, (), (Spread(f.name),)),))
        hname = gname + "b"
        yield "5.5.2.2", "three|top", replace(D, defs=D.defs[:di] + (replace(f, sel=f.sel + (Spread(gname),)),) + D.defs[di + 1:]
                                              + (Fragment(gname, f.on, (), (Spread(hname),)), Fragment(hname, f.on, (), (Spread(f.name),))))
        ftd = schema.type(f.on)
        if ftd is not None and ftd.kind in ("OBJECT", "INTERFACE"):
            for fld in ftd.fields:
                inner = named_of(fld.type)
                if schema.is_composite(inner) and set(schema.possible_types(inner)) & set(schema.possible_types(f.on)) and not fld.args:
                    yield "5.5.2.2", "self|under-nested-field", replace(
                        D, defs=D.defs[:di] + (replace(f, sel=f.sel + (Field(fld.name, None, (), (), (Spread(f.name),)),)),) + D.defs[di + 1:])
                    yield "5.5.2.2", "mutual|under-nested-field", replace(
                        D, defs=D.defs[:di] + (replace(f, sel=f.sel + (Spread(gname),)),) + D.defs[di + 1:]
                        + (Fragment(gname, f.on, (), (Field(fld.name, None, (), (), (Spread(f.name),)),)),))
                    break
        yield "5.7.1", "fragment-definition", replace(D, defs=D.defs[:di] + (replace(f, dirs=f.dirs + (Directive("zzUndefined"),)),) + D.defs[di + 1:])
        yield "5.7.2", "fragment-definition|skip", replace(D, defs=D.defs[:di] + (replace(f, dirs=f.dirs + (Directive("skip", (Arg("if", BoolV(False)),)),)),) + D.defs[di + 1:])
        yield "5.7.3", "fragment-definition", replace(D, defs=D.defs[:di] + (replace(f, dirs=f.dirs + (Directive("dq"), Directive("dq"))),) + D.defs[di + 1:])
    # 5.5.1.4 fragments must be used
    un = rewrite.fresh(D, "Unused")
    qroot = schema.query
    yield "5.5.1.4", "never-spread", replace(D, defs=D.defs + (Fragment(un, qroot, (), (Field("__typename"),)),))
    yield "5.5.1.4", "never-spread-first", replace(D, defs=(Fragment(un, qroot, (), (Field("__typename"),)),) + D.defs)
    yield "5.5.1.4", "spread-only-by-unused", replace(D, defs=D.defs + (Fragment(un, qroot, (), (Spread(un + "b"),)),
                                                                       Fragment(un + "b", qroot, (), (Field("__typename"),))))

    # 5.5.2.2 cycles among fragments that no operation reaches (the cycle passes through a nested selection set, so the fragment is
    # "spread" somewhere in the document although never from an operation)
    yield "5.5.2.2", "detached-self|inline", replace(D, defs=D.defs + (Fragment(un, qroot, (), (Field("__typename"), Inline(None, (), (Spread(un),)))),))
    yield "5.5.2.2", "detached-self|typed-inline", replace(D, defs=D.defs + (Fragment(un, qroot, (), (Inline(qroot, (), (Spread(un),)),)),))
    for td in schema.types:
        if td.kind not in ("OBJECT", "INTERFACE") or td.name.startswith("__"):
            continue
        done = False
        for fld in td.fields:
            inner = named_of(fld.type)
            if schema.is_composite(inner) and set(schema.possible_types(inner)) & set(schema.possible_types(td.name)) and not fld.args:
                yield "5.5.2.2", "detached-self|under-nested-field", replace(
                    D, defs=D.defs + (Fragment(un, td.name, (), (Field(fld.name, None, (), (), (Field("__typename"), Spread(un))),)),))
                yield "5.5.2.2", "detached-mutual|under-nested-field", replace(
                    D, defs=(Fragment(un, td.name, (), (Field(fld.name, None, (), (), (Spread(un + "b"),)),)),) + D.defs
                    + (Fragment(un + "b", td.name, (), (Field(fld.name, None, (), (), (Spread(un),)),)),))
                done = True
                break
        if done:
            break

    # operations: directives, variables
    for di, o in enumerate(D.defs):
        if not isinstance(o, Operation):
            continue
        o2 = replace(o, shorthand=False)

        def with_op(new):
            return replace(D, defs=D.defs[:di] + (new,) + D.defs[di + 1:])

        yield "5.7.1", "operation", with_op(replace(o2, dirs=o.dirs + (Directive("zzUndefined"),)))
        yield "5.7.2", "operation|skip", with_op(replace(o2, dirs=o.dirs + (Directive("skip", (Arg("if", BoolV(False)),)),)))
        yield "5.7.2", "operation|field-only-directive", with_op(replace(o2, dirs=o.dirs + (Directive("dqf"),)))
        yield "5.7.3", "operation", with_op(replace(o2, dirs=o.dirs + (Directive("dq"), Directive("dq"))))
        yield "5.8.4", "unused", with_op(replace(o2, vars=o.vars + (VarDef("zzUnused", "Int"),)))
        yield "5.8.4", "unused-with-default", with_op(replace(o2, vars=o.vars + (VarDef("zzUnused", "Int", IntV("1")),)))
        if o.vars:
            yield "5.8.1", "repeat-" + ("first" if di == 0 else "later") + "-operation", with_op(replace(o2, vars=o.vars + (o.vars[0],)))
            yield "5.8.1", "repeat-other-type", with_op(replace(o2, vars=o.vars + (replace(o.vars[0], type="String", default=None),)))
            # used only by another operation
            other = Operation("query", rewrite.fresh(D, "Uses"), (VarDef("zzOnlyThere", "Int"),), (), (Field("__typename"),))
            yield "5.8.4", "used-nowhere-in-this-operation", replace(D, defs=D.defs + (other,)) if all(x.name for x in ops) else None
        for vt in ("A", "Node", "Pet", "[A]", "A!", "Query", "ZzUndefinedType"):
            yield "5.8.2", vt, with_op(replace(o2, vars=o.vars + (VarDef("zzObj", vt),),
                                               sel=o.sel + (Field("__typename", None, (), (Directive("dq", (Arg("n", Var("zzObj")),)),)),)))

    # arguments: values of correct type, input-field uniqueness, variable uses / usages
    for rebuild, args, owner, defidx, site in arg_owners(schema, D):
        for ai, a in enumerate(args):
            for vpath, vnode in value_positions(a.value):
                vsite = site_of_value(owner, vpath) + ("|in-fragment" if site.startswith("fragment") else "")
                for lit in LITERALS:
                    if lit == vnode:
                        continue
                    new_args = args[:ai] + (replace(a, value=value_replace(a.value, vpath, lit)),) + args[ai + 1:]
                    yield "5.6.1", vsite + "|" + type(lit).__name__, rebuild(new_args)
                if isinstance(vnode, ListV):
                    # an ill-typed literal *after a variable* (and before one) inside a list literal
                    for vt in ("Int", "String", "P"):
                        for lit in LITERALS:
                            for tag, items in (("after-variable", (Var("zzLv"), lit)), ("before-variable", (lit, Var("zzLv"))),
                                               ("between-variables", (Var("zzLv"), lit, Var("zzLv")))):
                                d2 = rebuild(args[:ai] + (replace(a, value=value_replace(a.value, vpath, ListV(items))),) + args[ai + 1:])
                                d2 = with_var(d2, defidx, VarDef("zzLv", vt))
                                if d2 is not None:
                                    yield "5.6.1", vsite + "|list-item-" + tag + "|" + type(lit).__name__, d2
                if isinstance(vnode, ObjV) and vnode.fields:
                    dup = replace(vnode, fields=vnode.fields + (vnode.fields[0],))
                    new_args = args[:ai] + (replace(a, value=value_replace(a.value, vpath, dup)),) + args[ai + 1:]
                    yield "5.6.3", vsite, rebuild(new_args)
                # 5.8.3 undefined variable at this position
                new_args = args[:ai] + (replace(a, value=value_replace(a.value, vpath, Var("zzUndef"))),) + args[ai + 1:]
                yield "5.8.3", vsite, rebuild(new_args)
                # 5.8.5 variable of each candidate type at this position
                for vt in VAR_TYPES:
                    vn = "w"
                    d2 = rebuild(args[:ai] + (replace(a, value=value_replace(a.value, vpath, Var(vn))),) + args[ai + 1:])
                    d2 = with_var(d2, defidx, VarDef(vn, vt))
                    if d2 is not None:
                        yield "5.8.5", vsite + "|" + vt, d2
                    if vt in ("Int", "String", "[Int]"):
                        # (a default excuses the *outer* nullability of the variable only: `[Int] = [1]` still does not fit `[Int!]`)
                        d3 = rebuild(args[:ai] + (replace(a, value=value_replace(a.value, vpath, Var(vn))),) + args[ai + 1:])
                        d3 = with_var(d3, defidx, VarDef(vn, vt, IntV("1") if vt == "Int" else StrV("d") if vt == "String" else ListV((IntV("1"),))))
                        if d3 is not None:
                            yield "5.8.5", vsite + "|" + vt + "-with-default", d3
                    if not vt.endswith("!"):
                        # an explicit `= null` default is not a default that makes a nullable variable fit a non-null position
                        d4 = rebuild(args[:ai] + (replace(a, value=value_replace(a.value, vpath, Var(vn))),) + args[ai + 1:])
                        d4 = with_var(d4, defidx, VarDef(vn, vt, NullV()))
                        if d4 is not None:
                            yield "5.8.5", vsite + "|" + vt + "-with-null-default", d4
    # variable defaults of the wrong type (5.6.1 at site variable-default) and duplicated input fields there
    for di, o in enumerate(D.defs):
        if isinstance(o, Operation):
            for vi, v in enumerate(o.vars):
                for lit in LITERALS:
                    nv = replace(v, default=lit)
                    yield "5.6.1", "variable-default|" + type(lit).__name__, replace(
                        D, defs=D.defs[:di] + (replace(o, vars=o.vars[:vi] + (nv,) + o.vars[vi + 1:]),) + D.defs[di + 1:])
                yield "5.6.3", "variable-default", replace(
                    D, defs=D.defs[:di] + (replace(o, vars=o.vars + (VarDef("zzDup", "P", ObjV((("a", IntV("1")), ("a", IntV("2"))))),),
                                                   sel=o.sel + (Field("__typename", None, (), (Directive("dq", (Arg("p", Var("zzDup")),)),)),)),) + D.defs[di + 1:])
    # a variable misused (5.8.5: String variable for an Int argument) / undefined (5.8.3) / unused elsewhere, in a fragment that is reached
    # only through one of several sibling spreads -- first, middle, last -- and one or two levels further down
    for di, o in enumerate(D.defs):
        if not isinstance(o, Operation) or schema.directive("dq") is None:
            continue
        rt = schema.root(o.kind)
        if rt is None:
            continue
        names = [rewrite.fresh(D, "SIB%s" % c) for c in "ABCDE"]
        bad585 = Field("__typename", "tsib", (), (Directive("dq", (Arg("n", Var("zzSib")),)),))
        for pos, ptag in ((0, "first"), (1, "middle"), (2, "last")):
            for deep in (1, 2):
                sibs = [Fragment(n, rt, (), (Field("__typename", "ts%d" % k),)) for k, n in enumerate(names[:3])]
                leaf = Fragment(names[3], rt, (), (bad585,))
                chain = [leaf]
                target = names[3]
                if deep == 2:
                    chain.append(Fragment(names[4], rt, (), (Spread(names[3]),)))
                    target = names[4]
                sibs[pos] = replace(sibs[pos], sel=(Spread(target),) + sibs[pos].sel)
                o585 = replace(o, shorthand=False, vars=o.vars + (VarDef("zzSib", "String"),), sel=o.sel + tuple(Spread(n) for n in names[:3]))
                yield "5.8.5", "under-sibling-spread|%s|depth-%d" % (ptag, deep), replace(
                    D, defs=D.defs[:di] + (o585,) + D.defs[di + 1:] + tuple(sibs) + tuple(chain))
                o583 = replace(o, shorthand=False, sel=o.sel + tuple(Spread(n) for n in names[:3]))
                yield "5.8.3", "under-sibling-spread|%s|depth-%d" % (ptag, deep), replace(
                    D, defs=D.defs[:di] + (o583,) + D.defs[di + 1:] + tuple(sibs) + tuple(chain))
        break
    # a variable used in a directive on a fragment *definition*: undefined (5.8.3) / of a disallowed type (5.8.5) for the operation that
    # spreads the fragment, while the definition written just before the fragment is an operation that declares it properly
    if schema.directive("dq") is not None and schema.root("query"):
        rt = schema.root("query")
        fd = Fragment("ZzFD", rt, (Directive("dq", (Arg("n", Var("zzFD")),)),), (Field("__typename", "tfd"),))
        good = Operation("query", "ZzGood", (VarDef("zzFD", "Int"),), (), (Field("__typename", "tg", (), (Directive("dq", (Arg("n", Var("zzFD")),)),)),))
        for rule, bad in (("5.8.3", Operation("query", "ZzBad", (), (), (Spread("ZzFD"),))),
                          ("5.8.5", Operation("query", "ZzBad", (VarDef("zzFD", "String"),), (), (Spread("ZzFD"),)))):
            for tag, defs in (("bad-good-fragment", (bad, good, fd)), ("good-bad-fragment", (good, bad, fd)), ("fragment-bad-good", (fd, bad, good)),
                              ("bad-fragment-good", (bad, fd, good))):
                named = tuple(replace(x, name=x.name or "ZzMain", shorthand=False) if isinstance(x, Operation) else x for x in D.defs)
                yield rule, "fragment-definition-directive|" + tag, replace(D, defs=named + defs)
    # variable defined by the *other* operation only
    if len(ops) >= 2 and all(o.name for o in ops):
        o0i = [i for i, x in enumerate(D.defs) if isinstance(x, Operation)]
        a, b = o0i[0], o0i[1]
        defs = list(D.defs)
        defs[a] = replace(defs[a], vars=defs[a].vars + (VarDef("zzOther", "Int"),),
                          sel=defs[a].sel + (Field("__typename", None, (), (Directive("dq", (Arg("n", Var("zzOther")),)),)),))
        defs[b] = replace(defs[b], sel=defs[b].sel + (Field("__typename", "t2", (), (Directive("dq", (Arg("n", Var("zzOther")),)),)),))
        yield "5.8.3", "defined-by-other-operation-only", replace(D, defs=tuple(defs))
        # the variable is used inside a fragment shared by both operations; only one of them defines it
        for definer, other, tag in ((a, b, "first-defines"), (b, a, "second-defines")):
            defs = list(D.defs)
            fn = rewrite.fresh(D, "SV")
            rt = schema.root(defs[a].kind)
            if defs[a].kind != defs[b].kind or rt is None:
                continue
            defs[definer] = replace(defs[definer], vars=defs[definer].vars + (VarDef("zzShared", "Int"),), sel=defs[definer].sel + (Spread(fn),))
            defs[other] = replace(defs[other], sel=defs[other].sel + (Spread(fn),))
            frag = Fragment(fn, rt, (), (Field("__typename", "tsv", (), (Directive("dq", (Arg("n", Var("zzShared")),)),)),))
            yield "5.8.3", "shared-fragment|" + tag, replace(D, defs=tuple(defs) + (frag,))
            inner = rewrite.fresh(D, "SW")
            frag2 = Fragment(fn, rt, (), (Spread(inner),))
            frag3 = Fragment(inner, rt, (), (Field("__typename", "tsv", (), (Directive("skip", (Arg("if", Var("zzSharedB")),)),)),))
            defs2 = list(defs)
            defs2[definer] = replace(defs2[definer], vars=defs2[definer].vars[:-1] + (VarDef("zzSharedB", "Boolean!"),))
            yield "5.8.3", "shared-nested-fragment|" + tag, replace(D, defs=tuple(defs2) + (frag2, frag3))
            # both operations define the variable used in the shared fragment, one of them with a type the position does not allow
            defs3 = list(D.defs)
            fn3 = rewrite.fresh(D, "ST")
            defs3[definer] = replace(defs3[definer], vars=defs3[definer].vars + (VarDef("zzSharedT", "Int"),), sel=defs3[definer].sel + (Spread(fn3),))
            defs3[other] = replace(defs3[other], vars=defs3[other].vars + (VarDef("zzSharedT", "String"),), sel=defs3[other].sel + (Spread(fn3),))
            frag4 = Fragment(fn3, rt, (), (Field("__typename", "tst", (), (Directive("dq", (Arg("n", Var("zzSharedT")),)),)),))
            yield "5.8.5", "shared-fragment|" + ("second-ill-typed" if tag == "first-defines" else "first-ill-typed"), replace(D, defs=tuple(defs3) + (frag4,))
