"""Executable-document model (frozen dataclasses), printer with span bookkeeping, conversion from the JSON AST.

Two independent constructions of every document's spans (DESIGN 2.1): the printer knows where it put every node,
the parser reports where it found it; `roundtrip_check` demands that both agree, structurally and positionally.
"""
from dataclasses import dataclass, field, replace
from typing import Optional, Tuple, Any

from vf import gqlparse

MISSING = None


def _c(**kw):
    return field(compare=False, default=None, repr=False, **kw)


# ---- values ------------------------------------------------------------------------------------------------------
@dataclass(frozen=True)
class Var:
    name: str
    loc: Any = _c()


@dataclass(frozen=True)
class IntV:
    text: str
    loc: Any = _c()


@dataclass(frozen=True)
class FloatV:
    text: str
    loc: Any = _c()


@dataclass(frozen=True)
class StrV:
    value: str
    loc: Any = _c()


@dataclass(frozen=True)
class BoolV:
    value: bool
    loc: Any = _c()


@dataclass(frozen=True)
class NullV:
    loc: Any = _c()


@dataclass(frozen=True)
class EnumV:
    name: str
    loc: Any = _c()


@dataclass(frozen=True)
class ListV:
    items: Tuple[Any, ...] = ()
    loc: Any = _c()


@dataclass(frozen=True)
class ObjV:
    fields: Tuple[Tuple[str, Any], ...] = ()
    loc: Any = _c()


# ---- nodes -------------------------------------------------------------------------------------------------------
@dataclass(frozen=True)
class Arg:
    name: str
    value: Any
    loc: Any = _c()


@dataclass(frozen=True)
class Directive:
    name: str
    args: Tuple[Arg, ...] = ()
    loc: Any = _c()


@dataclass(frozen=True)
class Field:
    name: str
    alias: Optional[str] = None
    args: Tuple[Arg, ...] = ()
    dirs: Tuple[Directive, ...] = ()
    sel: Optional[Tuple[Any, ...]] = None
    loc: Any = _c()

    @property
    def key(self):
        return self.alias or self.name


@dataclass(frozen=True)
class Spread:
    name: str
    dirs: Tuple[Directive, ...] = ()
    loc: Any = _c()


@dataclass(frozen=True)
class Inline:
    on: Optional[str] = None
    dirs: Tuple[Directive, ...] = ()
    sel: Tuple[Any, ...] = ()
    loc: Any = _c()


@dataclass(frozen=True)
class VarDef:
    name: str
    type: str  # printed type reference, e.g. "[Int!]!"
    default: Any = None  # a value node or None
    loc: Any = _c()


@dataclass(frozen=True)
class Operation:
    kind: str = "query"
    name: Optional[str] = None
    vars: Tuple[VarDef, ...] = ()
    dirs: Tuple[Directive, ...] = ()
    sel: Tuple[Any, ...] = ()
    shorthand: bool = False
    loc: Any = _c()


@dataclass(frozen=True)
class Fragment:
    name: str
    on: str
    dirs: Tuple[Directive, ...] = ()
    sel: Tuple[Any, ...] = ()
    loc: Any = _c()


@dataclass(frozen=True)
class RawDef:
    """A non-executable definition carried verbatim (rule 5.1.1 material)."""
    kind: str
    text: Any = _c()
    loc: Any = _c()


@dataclass(frozen=True)
class Document:
    defs: Tuple[Any, ...] = ()
    loc: Any = _c()

    @property
    def operations(self):
        return [d for d in self.defs if isinstance(d, Operation)]

    @property
    def fragments(self):
        return [d for d in self.defs if isinstance(d, Fragment)]


# ---- type references ---------------------------------------------------------------------------------------------------
def type_str(t):
    k = t["kind"]
    if k == "NamedType":
        return t["name"]["value"]
    if k == "ListType":
        return "[" + type_str(t["type"]) + "]"
    return type_str(t["type"]) + "!"


def parse_type_str(s):
    """'[Int!]!' -> ('nn', ('list', ('nn', ('named', 'Int'))))"""
    s = s.strip()
    if s.endswith("!"):
        return ("nn", parse_type_str(s[:-1]))
    if s.startswith("["):
        assert s.endswith("]"), s
        return ("list", parse_type_str(s[1:-1]))
    return ("named", s)


def type_to_str(t):
    if t[0] == "nn":
        return type_to_str(t[1]) + "!"
    if t[0] == "list":
        return "[" + type_to_str(t[1]) + "]"
    return t[1]


def named_of(t):
    while t[0] != "named":
        t = t[1]
    return t[1]


# ---- JSON AST -> model -----------------------------------------------------------------------------------------------------
def _L(n):
    l = n["loc"]
    return (l["start"]["line"], l["start"]["column"], l["end"]["line"], l["end"]["column"])


def value_from_ast(v):
    k = v["kind"]
    if k == "Variable":
        return Var(v["name"]["value"], loc=_L(v))
    if k == "IntValue":
        return IntV(v["value"], loc=_L(v))
    if k == "FloatValue":
        return FloatV(v["value"], loc=_L(v))
    if k == "StringValue":
        return StrV(v["value"], loc=_L(v))
    if k == "BooleanValue":
        return BoolV(v["value"], loc=_L(v))
    if k == "NullValue":
        return NullV(loc=_L(v))
    if k == "EnumValue":
        return EnumV(v["value"], loc=_L(v))
    if k == "ListValue":
        return ListV(tuple(value_from_ast(x) for x in v["values"]), loc=_L(v))
    if k == "ObjectValue":
        return ObjV(tuple((f["name"]["value"], value_from_ast(f["value"])) for f in v["fields"]), loc=_L(v))
    raise ValueError(k)


def _args(a):
    return tuple(Arg(x["name"]["value"], value_from_ast(x["value"]), loc=_L(x)) for x in (a or ()))


def _dirs(d):
    return tuple(Directive(x["name"]["value"], _args(x["arguments"]), loc=_L(x)) for x in (d or ()))


def _sel(ss):
    if ss is None:
        return None
    out = []
    for s in ss["selections"]:
        k = s["kind"]
        if k == "Field":
            out.append(Field(s["name"]["value"], s["alias"]["value"] if s["alias"] else None, _args(s["arguments"]),
                             _dirs(s["directives"]), _sel(s["selectionSet"]), loc=_L(s)))
        elif k == "FragmentSpread":
            out.append(Spread(s["name"]["value"], _dirs(s["directives"]), loc=_L(s)))
        else:
            out.append(Inline(s["typeCondition"]["name"]["value"] if s["typeCondition"] else None,
                              _dirs(s["directives"]), _sel(s["selectionSet"]), loc=_L(s)))
    return tuple(out)


def from_ast(ast, text=None):
    defs = []
    for d in ast["definitions"]:
        k = d["kind"]
        if k == "OperationDefinition":
            vds = tuple(
                VarDef(v["variable"]["name"]["value"], type_str(v["type"]),
                       value_from_ast(v["defaultValue"]) if v["defaultValue"] else None, loc=_L(v))
                for v in (d["variableDefinitions"] or ()))
            shorthand = (d["name"] is None and d["operation"] == "query" and not vds and not d["directives"]
                         and d["loc"] == d["selectionSet"]["loc"])
            defs.append(Operation(d["operation"], d["name"]["value"] if d["name"] else None, vds,
                                  _dirs(d["directives"]), _sel(d["selectionSet"]), shorthand, loc=_L(d)))
        elif k == "FragmentDefinition":
            defs.append(Fragment(d["name"]["value"], d["typeCondition"]["name"]["value"], _dirs(d["directives"]),
                                 _sel(d["selectionSet"]), loc=_L(d)))
        else:
            defs.append(RawDef(k, loc=_L(d)))
    return Document(tuple(defs), loc=_L(ast))


def parse(text):
    return from_ast(gqlparse.parse_json_ast(text))


# ---- printer ---------------------------------------------------------------------------------------------------------
def escape_string(s):
    out = ['"']
    for ch in s:
        if ch == '"':
            out.append('\\"')
        elif ch == "\\":
            out.append("\\\\")
        elif ch == "\n":
            out.append("\\n")
        elif ch == "\r":
            out.append("\\r")
        elif ch == "\t":
            out.append("\\t")
        elif ch < " ":
            out.append("\\u%04x" % ord(ch))
        else:
            out.append(ch)
    out.append('"')
    return "".join(out)


class Emitter:
    def __init__(self, pretty=False):
        self.parts = []
        self.line = 1
        self.col = 1
        self.pretty = pretty
        self.spans = []  # pre-order list of (tag, l0, c0, l1, c1)
        self.indent = 0

    def w(self, s):
        self.parts.append(s)
        nl = s.count("\n")
        if nl:
            self.line += nl
            self.col = len(s.rsplit("\n", 1)[1].encode("utf-8")) + 1
        else:
            self.col += len(s.encode("utf-8"))

    def sep(self):
        if self.pretty:
            self.w("\n" + "  " * self.indent)
        else:
            self.w(" ")

    def begin(self, tag):
        self.spans.append([tag, self.line, self.col, None, None])
        return len(self.spans) - 1

    def end(self, h):
        self.spans[h][3] = self.line
        self.spans[h][4] = self.col

    def text(self):
        return "".join(self.parts)


def print_value(e, v):
    h = e.begin(type(v).__name__)
    if isinstance(v, Var):
        e.w("$" + v.name)
    elif isinstance(v, (IntV, FloatV)):
        e.w(v.text)
    elif isinstance(v, StrV):
        e.w(escape_string(v.value))
    elif isinstance(v, BoolV):
        e.w("true" if v.value else "false")
    elif isinstance(v, NullV):
        e.w("null")
    elif isinstance(v, EnumV):
        e.w(v.name)
    elif isinstance(v, ListV):
        e.w("[")
        for i, x in enumerate(v.items):
            if i:
                e.w(", ")
            print_value(e, x)
        e.w("]")
    elif isinstance(v, ObjV):
        e.w("{")
        for i, (n, x) in enumerate(v.fields):
            if i:
                e.w(", ")
            e.w(n + ": ")
            print_value(e, x)
        e.w("}")
    else:
        raise TypeError(v)
    e.end(h)


def _print_args(e, args):
    if not args:
        return
    e.w("(")
    for i, a in enumerate(args):
        if i:
            e.w(", ")
        h = e.begin("Arg")
        e.w(a.name + ": ")
        print_value(e, a.value)
        e.end(h)
    e.w(")")


def _print_dirs(e, dirs):
    for d in dirs:
        e.w(" ")
        h = e.begin("Directive")
        e.w("@" + d.name)
        _print_args(e, d.args)
        e.end(h)


def _print_sel(e, sel):
    e.w("{")
    e.indent += 1
    for s in sel:
        e.sep()
        if isinstance(s, Field):
            h = e.begin("Field")
            if s.alias:
                e.w(s.alias + ": ")
            e.w(s.name)
            _print_args(e, s.args)
            _print_dirs(e, s.dirs)
            if s.sel is not None:
                e.w(" ")
                _print_sel(e, s.sel)
            e.end(h)
        elif isinstance(s, Spread):
            h = e.begin("Spread")
            e.w("..." + s.name)
            _print_dirs(e, s.dirs)
            e.end(h)
        else:
            h = e.begin("Inline")
            e.w("...")
            if s.on:
                e.w(" on " + s.on)
            _print_dirs(e, s.dirs)
            e.w(" ")
            _print_sel(e, s.sel)
            e.end(h)
    e.indent -= 1
    e.sep()
    e.w("}")


def print_doc(document, pretty=False):
    """-> (text, spans) ; spans is the pre-order list of (tag, l0, c0, l1, c1) of every node printed."""
    e = Emitter(pretty)
    for i, d in enumerate(document.defs):
        if i:
            e.w("\n" if pretty else " ")
        if isinstance(d, Operation):
            h = e.begin("Operation")
            if not d.shorthand:
                e.w(d.kind)
                if d.name:
                    e.w(" " + d.name)
                if d.vars:
                    e.w("(")
                    for j, v in enumerate(d.vars):
                        if j:
                            e.w(", ")
                        hv = e.begin("VarDef")
                        e.w("$" + v.name + ": " + v.type)
                        if v.default is not None:
                            e.w(" = ")
                            print_value(e, v.default)
                        e.end(hv)
                    e.w(")")
                _print_dirs(e, d.dirs)
                e.w(" ")
            _print_sel(e, d.sel)
            e.end(h)
        elif isinstance(d, Fragment):
            h = e.begin("Fragment")
            e.w("fragment " + d.name + " on " + d.on)
            _print_dirs(e, d.dirs)
            e.w(" ")
            _print_sel(e, d.sel)
            e.end(h)
        else:
            h = e.begin("RawDef")
            e.w(d.text)
            e.end(h)
    return e.text(), [tuple(s) for s in e.spans]


def spans_of(document):
    """pre-order (tag, l0,c0,l1,c1) list from the parser-reported locs, same order as print_doc's."""
    out = []

    def val(v):
        out.append((type(v).__name__,) + tuple(v.loc))
        if isinstance(v, ListV):
            for x in v.items:
                val(x)
        elif isinstance(v, ObjV):
            for _, x in v.fields:
                val(x)

    def args(a):
        for x in a:
            out.append(("Arg",) + tuple(x.loc))
            val(x.value)

    def dirs(ds):
        for d in ds:
            out.append(("Directive",) + tuple(d.loc))
            args(d.args)

    def sel(ss):
        for s in ss:
            out.append((type(s).__name__,) + tuple(s.loc))
            if isinstance(s, Field):
                args(s.args)
                dirs(s.dirs)
                if s.sel is not None:
                    sel(s.sel)
            elif isinstance(s, Spread):
                dirs(s.dirs)
            else:
                dirs(s.dirs)
                sel(s.sel)

    for d in document.defs:
        out.append((type(d).__name__,) + tuple(d.loc))
        if isinstance(d, Operation):
            for v in d.vars:
                out.append(("VarDef",) + tuple(v.loc))
                if v.default is not None:
                    val(v.default)
            dirs(d.dirs)
            sel(d.sel)
        elif isinstance(d, Fragment):
            dirs(d.dirs)
            sel(d.sel)
    return out


class MachineryError(Exception):
    """The verification machinery itself is inconsistent (never a property violation)."""


def roundtrip(document, pretty=False):
    """print -> parse -> compare structure and spans; returns (text, located_document)."""
    text, spans = print_doc(document, pretty)
    try:
        back = parse(text)
    except gqlparse.GQLSyntaxError as e:
        raise MachineryError("printed document does not parse: %s\n%s" % (e, text))
    if back != document:
        raise MachineryError("print/parse round trip changed the document:\n%s\n%r\n%r" % (text, document, back))
    got = spans_of(back)
    if got != spans:
        diff = [(a, b) for a, b in zip(spans, got) if a != b][:3]
        raise MachineryError("printer and parser disagree on spans for:\n%s\n%r" % (text, diff))
    return text, back
