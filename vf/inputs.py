"""Shared alphabet for C04 / C05: input type universe, per-type JSON value universes, JSON -> literal spelling."""
from vf import doc, schema as S
from vf.doc import IntV, FloatV, StrV, BoolV, NullV, EnumV, ListV, ObjV, Var, parse_type_str, type_to_str

BASES = ["Int", "Float", "String", "Boolean", "ID", "Tag", "Color", "P", "Q", "R"]

SHAPES_1 = ["T", "T!"]
SHAPES_2 = ["[T]", "[T]!", "[T!]", "[T!]!"]
SHAPES_3 = ["[[T]]", "[[T]]!", "[[T]!]", "[[T]!]!", "[[T!]]", "[[T!]]!", "[[T!]!]", "[[T!]!]!"]
SHAPES_4 = ["[[[T]]]", "[[[T!]]!]", "[[[T]!]]!", "[[[T!]!]!]!"]


def shapes(level):
    out = SHAPES_1 + SHAPES_2
    if level >= 2:
        out = out + SHAPES_3
    if level >= 3:
        out = out + SHAPES_4
    return out


INPUT_TYPES_SDL = """
directive @mk on SCALAR | ENUM | ENUM_VALUE | INPUT_OBJECT | INPUT_FIELD_DEFINITION | ARGUMENT_DEFINITION
enum Color @mk { RED GREEN @mk BLUE True False }
scalar Tag @mk
input P @mk { a: Int @mk b: String = "x" c: [Int!] @mk }
input Q { r: Int! @mk p: P d: Int! = 7 @mk l: [String!]! = ["id"] }
input R { r: R x: Int = 1 z: String = null }
"""

BASE_VALUES = {
    "Int": [0, 1, -1, 2 ** 31 - 1, 2 ** 31, -(2 ** 31) - 1, 1.0, 1.5, "1", "", True, {"a": 1}],
    "Float": [0, 1, 1.5, -0.0, 10 ** 400, float("inf"), float("nan"), "1.5", True, [1.5, "x"]],
    "String": ["", "s", "é\n\"q\"", 1, 1.5, True, {"s": "s"}],
    "Boolean": [True, False, 0, 1, "true", "", 1.0],
    "ID": ["", "id", 0, 7, -3, 2 ** 40, 1.0, 1.5, True, {"id": 1}],
    "Tag": ["", "t", 1, True, ["t", 1]],
    "Color": ["RED", "BLUE", "red", "PURPLE", "", 0, True, {"RED": 1}, False, "True", 1.0],
    "P": [{}, {"a": 1}, {"a": None}, {"a": "x"}, {"zz": 1}, {"a": 1, "zz": 2}, {"b": None}, {"b": "y"}, {"b": 3}, {"c": [1, 2]},
          {"c": 1}, {"c": [None]}, {"c": None}, {"c": []}, {"c": ["x"]}, {"a": 1, "b": "y", "c": [3]}, 5, "s", True,
          {"c": [3], "b": "y", "a": 1}, {"b": "y", "a": 1}],
    "Q": [{"r": 1}, {}, {"r": None}, {"r": "x"}, {"r": 1, "p": {"a": "bad"}}, {"r": 1, "p": {"b": "y"}}, {"r": 1, "p": None},
          {"r": 1, "p": {}}, {"r": 1, "p": {"c": 2}}, {"p": {}}, {"r": 2 ** 31}, {"r": 1, "q": 1}, 1,
          {"r": 1, "d": 2}, {"r": 1, "d": None}, {"r": 1, "l": "single"}, {"r": 1, "l": None}, {"r": 1, "l": [None]}, {"r": 1, "d": 2, "l": []},
          {"l": ["x"], "d": 2, "p": {"c": [1], "a": 2}, "r": 1}, {"p": {}, "r": 1}],
    "R": [{}, {"r": {}}, {"r": {"r": {"x": 2}}}, {"r": {"x": "bad"}}, {"x": None}, {"x": 5}, {"r": None}, {"r": {"r": {"r": {"zz": 1}}}},
          {"r": 1}, "R"],
}
GOOD = {"Int": 1, "Float": 1.5, "String": "s", "Boolean": True, "ID": "id", "Tag": "t", "Color": "RED", "P": {"a": 1},
        "Q": {"r": 1}, "R": {}}
WRONG = {"Int": "x", "Float": "x", "String": 1, "Boolean": "x", "ID": True, "Tag": 1, "Color": "PURPLE", "P": {"zz": 1},
         "Q": {}, "R": {"x": "bad"}}


def json_values(t, budget=None):
    """JSON values around type t (typeref tuple): right, wrong and borderline kinds at every position; None included"""
    if t[0] == "nn":
        return json_values(t[1])
    if t[0] == "list":
        inner = json_values(t[1])
        base = doc.named_of(t)
        out = [None, []]
        seen = set()

        def add(v):
            k = repr(v)
            if k not in seen:
                seen.add(k)
                out.append(v)

        for x in inner:
            add([x])
        for x in inner:
            if not isinstance(x, list):
                add(x)  # a single value where a list is declared
        g = _good(t[1])
        w = _wrong(t[1])
        add([g, g])
        add([g, w])
        add([w, g])
        add([g, None])
        add([None, g])
        # longer lists: the offending / null item beyond the second position, in the middle, at the end of 3-5 items
        add([g, g, w])
        add([g, w, g])
        add([g, g, None])
        add([g, None, g])
        add([None, g, g])
        add([g, g, g, None])
        add([g, g, g, w])
        add([g, g, g, g, w])
        add([g, g, g, g, g])
        return out
    return [None] + list(BASE_VALUES[t[1]])


def _good(t):
    if t[0] == "nn":
        return _good(t[1])
    if t[0] == "list":
        return [_good(t[1])]
    return GOOD[t[1]]


def _wrong(t):
    if t[0] == "nn":
        return _wrong(t[1])
    if t[0] == "list":
        return [_wrong(t[1])]
    return WRONG[t[1]]


def is_jsonable(v):
    import math
    if isinstance(v, float):
        return math.isfinite(v)
    if isinstance(v, list):
        return all(is_jsonable(x) for x in v)
    if isinstance(v, dict):
        return all(is_jsonable(x) for x in v.values())
    return True


def to_literal(schema, t, v):
    """spell JSON value v as a GraphQL literal for declared type t (enum names as enum literals); None if impossible"""
    import math
    if v is None:
        return NullV()
    if t[0] == "nn":
        return to_literal(schema, t[1], v)
    if isinstance(v, list):
        inner = t[1] if t[0] == "list" else t
        items = [to_literal(schema, inner, x) for x in v]
        if any(i is None for i in items):
            return None
        return ListV(tuple(items))
    if t[0] == "list":
        return to_literal(schema, t[1], v)
    td = schema.type(t[1])
    if isinstance(v, dict):
        fields = []
        for k, x in v.items():
            fd = td.field(k) if td.kind == "INPUT_OBJECT" else None
            lit = to_literal(schema, fd.type if fd else ("named", "String"), x)
            if lit is None:
                return None
            fields.append((k, lit))
        return ObjV(tuple(fields))
    if isinstance(v, bool):
        return BoolV(v)
    if isinstance(v, int):
        return IntV(str(v))
    if isinstance(v, float):
        if not math.isfinite(v):
            return None
        return FloatV(repr(v))
    if isinstance(v, str):
        if td.kind == "ENUM" and v.isidentifier() and v not in ("true", "false", "null"):
            return EnumV(v)
        return StrV(v)
    return None


def literal_matches_json_kind(t, v):
    """False where the literal spelling of v is of another *kind* than the JSON value (DC1: 1.0 for Int)"""
    return True
