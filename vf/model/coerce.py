"""E5: June-2018 input coercion (variables, literals, arguments) and result coercion of leaves.  Boring on purpose.

Don't-care zones (DESIGN 3.2) are a `Policy`; a check accepts the engine's behaviour if it equals the model's under
*some* policy.
"""
import math
from dataclasses import dataclass
from itertools import product

from vf import doc
from vf.doc import Var, IntV, FloatV, StrV, BoolV, NullV, EnumV, ListV, ObjV


class _Tok:
    def __init__(self, n):
        self.n = n

    def __repr__(self):
        return self.n


INVALID = _Tok("INVALID")
ABSENT = _Tok("ABSENT")

INT_MIN, INT_MAX = -(2 ** 31), 2 ** 31 - 1


@dataclass(frozen=True)
class Policy:
    dc1_accept_integral_float: bool = True  # JSON 1.0 for Int / ID
    dc2_wrap_flat_for_nested: bool = True  # flat list for [[T]]
    dc3_missing_var_in_list_is_null: bool = True

    @staticmethod
    def all():
        return [Policy(a, b, c) for a, b, c in product((True, False), repeat=3)]


DEFAULT_POLICY = Policy()


class CustomScalar:
    """Reference semantics of the harness' custom scalar `Tag` (vf.harness registers the same functions)."""

    @staticmethod
    def coerce_input(v):
        if isinstance(v, str):
            return "T:" + v
        return INVALID

    @staticmethod
    def parse_literal(node):
        if isinstance(node, StrV):
            return "T:" + node.value
        return INVALID

    @staticmethod
    def coerce_output(v):
        if v == "nullify":
            return None  # a scalar implementation may serialise a value to null: at a non-null position that is a field failure
        if isinstance(v, str):
            return "out:" + v
        return INVALID


def _is_integral_float(v):
    return isinstance(v, float) and math.isfinite(v) and v == math.floor(v)


# ---- JSON (variable) input coercion ------------------------------------------------------------------------------------
def coerce_scalar_input(name, v, pol):
    if name == "Int":
        if isinstance(v, bool):
            return INVALID
        if isinstance(v, int):
            return v if INT_MIN <= v <= INT_MAX else INVALID
        if _is_integral_float(v) and pol.dc1_accept_integral_float and INT_MIN <= v <= INT_MAX:
            return int(v)
        return INVALID
    if name == "Float":
        if isinstance(v, bool):
            return INVALID
        if isinstance(v, int):
            try:
                f = float(v)
            except OverflowError:
                return INVALID
            return f
        if isinstance(v, float) and math.isfinite(v):
            return v
        return INVALID
    if name == "String":
        return v if isinstance(v, str) else INVALID
    if name == "Boolean":
        return v if isinstance(v, bool) else INVALID
    if name == "ID":
        if isinstance(v, str):
            return v
        if isinstance(v, bool):
            return INVALID
        if isinstance(v, int):
            return str(v)
        if _is_integral_float(v) and pol.dc1_accept_integral_float:
            return str(int(v))
        return INVALID
    if name == "Tag":
        return CustomScalar.coerce_input(v)
    raise KeyError("no reference input coercion for scalar " + name)


def coerce_input(schema, t, v, pol=DEFAULT_POLICY):
    """JSON value -> coerced value | INVALID   (t: typeref tuple)"""
    if t[0] == "nn":
        if v is None:
            return INVALID
        return coerce_input(schema, t[1], v, pol)
    if v is None:
        return None
    if t[0] == "list":
        inner = t[1]
        if isinstance(v, list):
            out = []
            for x in v:
                if (not pol.dc2_wrap_flat_for_nested and not isinstance(x, list) and x is not None
                        and _strip_nn(inner)[0] == "list"):
                    return INVALID
                r = coerce_input(schema, inner, x, pol)
                if r is INVALID:
                    return INVALID
                out.append(r)
            return out
        r = coerce_input(schema, inner, v, pol)
        return INVALID if r is INVALID else [r]
    td = schema.type(t[1])
    if td.kind == "SCALAR":
        return coerce_scalar_input(td.name, v, pol)
    if td.kind == "ENUM":
        if isinstance(v, str) and any(ev.name == v for ev in td.values):
            return v
        return INVALID
    if td.kind == "INPUT_OBJECT":
        if not isinstance(v, dict):
            return INVALID
        out = {}
        for k in v:
            if td.field(k) is None:
                return INVALID
        for f in td.fields:
            if f.name in v:
                r = coerce_input(schema, f.type, v[f.name], pol)
                if r is INVALID:
                    return INVALID
                out[f.name] = r
            elif f.default is not None:
                r = coerce_literal(schema, f.type, f.default, {}, pol)
                if r is INVALID:
                    return INVALID
                out[f.name] = r
            elif f.type[0] == "nn":
                return INVALID
        return out
    return INVALID


def _strip_nn(t):
    return t[1] if t[0] == "nn" else t


# ---- literal input coercion ----------------------------------------------------------------------------------------------
def coerce_scalar_literal(name, node, pol):
    if name == "Int":
        if isinstance(node, IntV):
            v = int(node.text)
            return v if INT_MIN <= v <= INT_MAX else INVALID
        return INVALID
    if name == "Float":
        if isinstance(node, (IntV, FloatV)):
            f = float(node.text)
            return f if math.isfinite(f) else INVALID
        return INVALID
    if name == "String":
        return node.value if isinstance(node, StrV) else INVALID
    if name == "Boolean":
        return node.value if isinstance(node, BoolV) else INVALID
    if name == "ID":
        if isinstance(node, StrV):
            return node.value
        if isinstance(node, IntV):
            return node.text
        return INVALID
    if name == "Tag":
        return CustomScalar.parse_literal(node)
    raise KeyError("no reference literal coercion for scalar " + name)


def coerce_literal(schema, t, node, vars_, pol=DEFAULT_POLICY):
    """value node (may contain variables) -> coerced | INVALID.  A *missing* variable directly here -> ABSENT."""
    if isinstance(node, Var):
        if node.name not in vars_:
            return ABSENT
        v = vars_[node.name]
        if v is None and t[0] == "nn":
            return INVALID
        return v
    if t[0] == "nn":
        if isinstance(node, NullV):
            return INVALID
        return coerce_literal(schema, t[1], node, vars_, pol)
    if isinstance(node, NullV):
        return None
    if t[0] == "list":
        inner = t[1]
        if isinstance(node, ListV):
            out = []
            for x in node.items:
                r = coerce_literal(schema, inner, x, vars_, pol)
                if r is ABSENT:
                    if inner[0] == "nn" or not pol.dc3_missing_var_in_list_is_null:
                        return INVALID
                    r = None
                if r is INVALID:
                    return INVALID
                out.append(r)
            return out
        r = coerce_literal(schema, inner, node, vars_, pol)
        if r is INVALID or r is ABSENT:
            return INVALID
        return [r]
    td = schema.type(t[1])
    if td.kind == "SCALAR":
        return coerce_scalar_literal(td.name, node, pol)
    if td.kind == "ENUM":
        if isinstance(node, EnumV) and any(ev.name == node.name for ev in td.values):
            return node.name
        return INVALID
    if td.kind == "INPUT_OBJECT":
        if not isinstance(node, ObjV):
            return INVALID
        given = {}
        for n, v in node.fields:
            if td.field(n) is None or n in given:
                return INVALID
            given[n] = v
        out = {}
        for f in td.fields:
            r = ABSENT
            if f.name in given:
                r = coerce_literal(schema, f.type, given[f.name], vars_, pol)
                if r is INVALID:
                    return INVALID
            if r is ABSENT:
                if f.default is not None:
                    r = coerce_literal(schema, f.type, f.default, {}, pol)
                    if r is INVALID:
                        return INVALID
                elif f.type[0] == "nn":
                    return INVALID
                else:
                    continue
            out[f.name] = r
        return out
    return INVALID


# ---- variables --------------------------------------------------------------------------------------------------------
def coerce_variables(schema, operation, raw, pol=DEFAULT_POLICY):
    """-> (values dict, set of offending variable names)"""
    raw = raw or {}
    out, bad = {}, set()
    for vd in operation.vars:
        t = doc.parse_type_str(vd.type)
        has = vd.name in raw
        if not has and vd.default is not None:
            r = coerce_literal(schema, t, vd.default, {}, pol)
            if r is INVALID or r is ABSENT:
                bad.add(vd.name)
            else:
                out[vd.name] = r
            continue
        if t[0] == "nn" and (not has or raw[vd.name] is None):
            bad.add(vd.name)
            continue
        if has:
            v = raw[vd.name]
            if v is None:
                out[vd.name] = None
                continue
            r = coerce_input(schema, t, v, pol)
            if r is INVALID:
                bad.add(vd.name)
            else:
                out[vd.name] = r
    return out, bad


# ---- arguments ----------------------------------------------------------------------------------------------------------
class ArgError(Exception):
    def __init__(self, arg_names):
        super().__init__(arg_names)
        self.arg_names = arg_names


def coerce_arguments(schema, argdefs, arg_nodes, vars_, pol=DEFAULT_POLICY):
    """-> dict ; raises ArgError(names) when an argument cannot be coerced (field error)."""
    given = {a.name: a for a in arg_nodes}
    out, bad = {}, []
    for ad in argdefs:
        node = given.get(ad.name)
        if node is not None and isinstance(node.value, Var):
            has = node.value.name in vars_
            value = vars_.get(node.value.name)
            is_var = True
        else:
            has = node is not None
            value = node.value if node is not None else None
            is_var = False
        if not has and ad.default is not None:
            r = coerce_literal(schema, ad.type, ad.default, {}, pol)
            if r is INVALID or r is ABSENT:
                bad.append(ad.name)
            else:
                out[ad.name] = r
            continue
        is_null = has and (value is None if is_var else isinstance(value, NullV))
        if ad.type[0] == "nn" and (not has or is_null):
            bad.append(ad.name)
            continue
        if has:
            if is_null:
                out[ad.name] = None
            elif is_var:
                out[ad.name] = value
            else:
                r = coerce_literal(schema, ad.type, value, vars_, pol)
                if r is INVALID or r is ABSENT:
                    bad.append(ad.name)
                else:
                    out[ad.name] = r
    if bad:
        raise ArgError(bad)
    return out


# ---- result coercion of leaves (well-typed resolver data only; C03 / C10 have their own tables) ----------------------
def coerce_result_leaf(schema, type_name, v):
    """-> serialised value | INVALID (field error).  Only defined for the value kinds the harness data trees use."""
    td = schema.type(type_name)
    if td.kind == "ENUM":
        if isinstance(v, str) and any(ev.name == v for ev in td.values):
            return v
        return INVALID
    n = td.name
    if n == "Int":
        if isinstance(v, bool):
            return int(v)
        if isinstance(v, int) and INT_MIN <= v <= INT_MAX:
            return v
        return INVALID
    if n == "Float":
        if isinstance(v, bool):
            return INVALID
        if isinstance(v, (int, float)) and math.isfinite(v):
            return float(v)
        return INVALID
    if n == "String":
        return v if isinstance(v, str) else INVALID
    if n == "Boolean":
        return v if isinstance(v, bool) else INVALID
    if n == "ID":
        if isinstance(v, str):
            return v
        if isinstance(v, int) and not isinstance(v, bool):
            return str(v)
        return INVALID
    if n == "Tag":
        return CustomScalar.coerce_output(v)
    raise KeyError("no reference result coercion for " + n)


def freeze(v):
    """type-sensitive canonical form (1, 1.0 and True differ; dict order irrelevant)"""
    if v is None:
        return ("null",)
    if isinstance(v, bool):
        return ("bool", v)
    if isinstance(v, int):
        return ("int", v)
    if isinstance(v, float):
        return ("float", repr(v))
    if isinstance(v, str):
        return ("str", v)
    if isinstance(v, (list, tuple)):
        return ("list",) + tuple(freeze(x) for x in v)
    if isinstance(v, dict):
        return ("dict",) + tuple(sorted((str(k), freeze(x)) for k, x in v.items()))
    return ("other", type(v).__name__, repr(v))
