"""E5: what introspection must report for a schema model (June-2018 section 4), in a normalised comparable form,
and the normaliser for a real engine's answer to the standard introspection query (DC11, DC15 applied)."""
from vf import doc, gqlparse, schema as S
from vf.doc import IntV, FloatV, StrV, BoolV, NullV, EnumV, ListV, ObjV

TYPE_REF = "kind name" + " ofType { kind name" * 9 + " }" * 9
INPUT_VALUE = "name type { %s } defaultValue" % TYPE_REF
TYPE_BODY = """kind name
    fields(includeDeprecated: %(dep)s) { name args { """ + INPUT_VALUE + """ } type { """ + TYPE_REF + """ } isDeprecated deprecationReason }
    inputFields { """ + INPUT_VALUE + """ }
    interfaces { kind name }
    enumValues(includeDeprecated: %(dep)s) { name isDeprecated deprecationReason }
    possibleTypes { kind name }"""
SCHEMA_QUERY = """{ __schema {
  queryType { name } mutationType { name } subscriptionType { name }
  types { """ + TYPE_BODY + """ }
  directives { name locations args { """ + INPUT_VALUE + """ } }
} }"""


def schema_query(include_deprecated=True):
    return SCHEMA_QUERY % {"dep": "true" if include_deprecated else "false"}


def decorated_schema_query(include_deprecated=True):
    """the standard query with a (neutral) directive on every list-valued introspection selection and a variable for one of them:
    what introspection reports does not depend on directives written on the introspection selections themselves"""
    q = SCHEMA_QUERY
    for a, b in (("fields(includeDeprecated: %(dep)s) {", "fields(includeDeprecated: %(dep)s) @include(if: $yes) {"),
                 ("enumValues(includeDeprecated: %(dep)s) {", "enumValues(includeDeprecated: %(dep)s) @skip(if: false) {"),
                 ("types {", "types @include(if: true) {"), ("inputFields {", "inputFields @skip(if: false) {"),
                 ("args {", "args @include(if: true) {"), ("directives {", "directives @skip(if: false) {")):
        assert a in q
        q = q.replace(a, b)
    return "query IQ($yes: Boolean = true) " + q % {"dep": "true" if include_deprecated else "false"}


def type_query(name, include_deprecated=True):
    return ("{ __type(name: %s) { " % doc.escape_string(name)) + (TYPE_BODY % {"dep": "true" if include_deprecated else "false"}) + " } }"


DEFAULT_FILTER_QUERY = """{ __schema { types { name fields { name } enumValues { name } } } }"""

ALLOWED_EXTRA_TYPES = set(S.BUILTIN_SCALARS)
ALLOWED_EXTRA_DIRECTIVES = {"deprecated", "nonIntrospectable", "skip", "include"}


def norm_value(v):
    if v is None:
        return ("absent",)
    if isinstance(v, NullV):
        return ("null",)
    if isinstance(v, IntV):
        return ("num", float(v.text))
    if isinstance(v, FloatV):
        return ("num", float(v.text))
    if isinstance(v, StrV):
        return ("str", v.value)
    if isinstance(v, BoolV):
        return ("bool", v.value)
    if isinstance(v, EnumV):
        return ("enum", v.name)
    if isinstance(v, ListV):
        return ("list",) + tuple(norm_value(x) for x in v.items)
    if isinstance(v, ObjV):
        return ("obj",) + tuple(sorted((n, norm_value(x)) for n, x in v.fields))
    raise TypeError(v)


def parse_default(text):
    """a GraphQL-formatted default value string -> normalised value (or ('unparseable', text))"""
    if text is None:
        return ("absent",)
    try:
        ast = gqlparse.Parser(("{f(x: %s)}" % text).encode("utf-8", "surrogateescape")).document()
        val = ast["definitions"][0]["selectionSet"]["selections"][0]["arguments"]
        if len(val) != 1:
            return ("unparseable", text)
        return norm_value(doc.value_from_ast(val[0]["value"]))
    except Exception:
        return ("unparseable", text)


def _deprecation(dirs):
    for d in dirs:
        if d.name == "deprecated":
            reason = "No longer supported"
            for n, v in d.args:
                if n == "reason":
                    reason = v.value if isinstance(v, StrV) else None
            return True, reason
    return False, None


def _hidden(dirs):
    return any(d.name == "nonIntrospectable" for d in dirs)


def _args(args):
    return {a.name: {"type": doc.type_to_str(a.type), "default": norm_value(a.default)} for a in args}


def expected(schema, include_deprecated=True):
    types = {}
    for t in schema.types:
        e = {"kind": t.kind, "fields": None, "inputFields": None, "interfaces": None, "possibleTypes": None, "enumValues": None}
        if t.kind in ("OBJECT", "INTERFACE"):
            fields = {}
            for f in t.fields:
                if _hidden(f.dirs):
                    continue
                dep, reason = _deprecation(f.dirs)
                if dep and not include_deprecated:
                    continue
                fields[f.name] = {"type": doc.type_to_str(f.type), "args": _args(f.args), "deprecated": dep, "reason": reason}
            e["fields"] = fields
            if t.kind == "OBJECT":
                e["interfaces"] = set(t.interfaces)
            e_poss = set(schema.possible_types(t.name)) if t.kind == "INTERFACE" else None
            e["possibleTypes"] = e_poss
        elif t.kind == "UNION":
            e["possibleTypes"] = set(t.members)
        elif t.kind == "ENUM":
            vals = {}
            for v in t.values:
                dep, reason = _deprecation(v.dirs)
                if dep and not include_deprecated:
                    continue
                vals[v.name] = (dep, reason)
            e["enumValues"] = vals
        elif t.kind == "INPUT_OBJECT":
            e["inputFields"] = _args(t.fields)
        types[t.name] = e
    directives = {d.name: {"locations": set(d.locations), "args": _args(d.args)} for d in schema.directives}
    return {"roots": {"query": schema.query, "mutation": schema.mutation, "subscription": schema.subscription},
            "types": types, "directives": directives}


def fold_type(t):
    if t is None:
        return None
    k = t.get("kind")
    if k == "NON_NULL":
        return (fold_type(t.get("ofType")) or "?") + "!"
    if k == "LIST":
        return "[" + (fold_type(t.get("ofType")) or "?") + "]"
    return t.get("name")


def _norm_args(args):
    out = {}
    for a in args or []:
        out[a["name"]] = {"type": fold_type(a["type"]), "default": parse_default(a.get("defaultValue"))}
    return out


def normalise_type(t):
    e = {"kind": t["kind"], "fields": None, "inputFields": None, "interfaces": None, "possibleTypes": None, "enumValues": None}
    if t.get("fields") is not None:
        e["fields"] = {f["name"]: {"type": fold_type(f["type"]), "args": _norm_args(f["args"]), "deprecated": f["isDeprecated"],
                                   "reason": f["deprecationReason"]} for f in t["fields"]}
        if len(e["fields"]) != len(t["fields"]):
            e["duplicate_fields"] = True
    if t.get("inputFields") is not None:
        e["inputFields"] = _norm_args(t["inputFields"])
    if t.get("interfaces") is not None:
        e["interfaces"] = {i["name"] for i in t["interfaces"]}
    if t.get("possibleTypes") is not None:
        e["possibleTypes"] = {i["name"] for i in t["possibleTypes"]}
    if t.get("enumValues") is not None:
        e["enumValues"] = {v["name"]: (v["isDeprecated"], v["deprecationReason"]) for v in t["enumValues"]}
    return e


def normalise(data):
    s = data["__schema"]
    types = {}
    extras = []
    dup = []
    for t in s["types"]:
        n = t["name"]
        if n in types:
            dup.append(n)
        types[n] = normalise_type(t)
    directives = {}
    for d in s["directives"]:
        directives[d["name"]] = {"locations": set(d["locations"]), "args": _norm_args(d["args"])}
    return {"roots": {"query": (s["queryType"] or {}).get("name"), "mutation": (s["mutationType"] or {}).get("name"),
                      "subscription": (s["subscriptionType"] or {}).get("name")},
            "types": types, "directives": directives, "duplicate_types": dup}


def same_type_entry(exp, got):
    """compare one type entry; -> list of (attribute, expected, got)"""
    diffs = []
    if exp["kind"] != got["kind"]:
        diffs.append(("kind", exp["kind"], got["kind"]))
    for key in ("fields", "inputFields", "enumValues", "possibleTypes"):
        e, g = exp[key], got[key]
        if e is None:
            if g not in (None, {}, set()):
                diffs.append((key, e, g))
            continue
        if g is None or e != g:
            if key in ("fields", "inputFields") and g is not None and set(e) == set(g):
                for n in e:
                    if e[n] != g[n]:
                        sub = [k for k in e[n] if e[n][k] != g[n].get(k)]
                        diffs.append(("%s.%s.%s" % (key, n, "+".join(sub)), e[n], g[n]))
            else:
                diffs.append((key, e, g))
    e, g = exp["interfaces"], got["interfaces"]
    if e is None:
        if g not in (None, set()):
            diffs.append(("interfaces", e, g))
    elif g is None or e != g:
        diffs.append(("interfaces", e, g))
    if got.get("duplicate_fields"):
        diffs.append(("fields-duplicated", None, None))
    return diffs


def compare(exp, got):
    """-> list of (element kind, attribute, detail)"""
    out = []
    if exp["roots"] != got["roots"]:
        out.append(("schema", "roots", (exp["roots"], got["roots"])))
    et, gt = exp["types"], got["types"]
    for n in et:
        if n not in gt:
            out.append(("type", "missing", n))
            continue
        for attr, e, g in same_type_entry(et[n], gt[n]):
            out.append((et[n]["kind"], attr, (n, e, g)))
    for n in gt:
        if n not in et and not n.startswith("__") and n not in ALLOWED_EXTRA_TYPES:
            out.append(("type", "extra", n))
    for n in got.get("duplicate_types", []):
        out.append(("type", "duplicate", n))
    ed, gd = exp["directives"], got["directives"]
    for n in ed:
        if n not in gd:
            out.append(("directive", "missing", n))
        elif ed[n] != gd[n]:
            out.append(("directive", "+".join(k for k in ed[n] if ed[n][k] != gd[n][k]), (n, ed[n], gd[n])))
    for n in gd:
        if n not in ed and n not in ALLOWED_EXTRA_DIRECTIVES:
            out.append(("directive", "extra", n))
    return out
