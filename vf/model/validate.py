"""E5: the June-2018 validation rules (section 5), all of them, over the document model.

validate(schema, document) -> set of rule ids that the document violates, e.g. {"5.3.1", "5.8.3"}.
`details` (list of (rule, message)) is kept for diagnostics.  Written from the specification text, not from tartiflette.
"""
from vf import doc
from vf.doc import (Field, Spread, Inline, Operation, Fragment, RawDef, Var, IntV, FloatV, StrV, BoolV, NullV, EnumV,
                    ListV, ObjV, parse_type_str, named_of)
from vf.model import coerce as C

EXECUTABLE_LOCATION = {"query": "QUERY", "mutation": "MUTATION", "subscription": "SUBSCRIPTION"}

ALL_RULES = (
    "5.1.1", "5.2.1.1", "5.2.2.1", "5.2.3.1", "5.3.1", "5.3.2", "5.3.3", "5.4.1", "5.4.2", "5.4.2.1", "5.5.1.1",
    "5.5.1.2", "5.5.1.3", "5.5.1.4", "5.5.2.1", "5.5.2.2", "5.5.2.3", "5.6.1", "5.6.2", "5.6.3", "5.6.4", "5.7.1",
    "5.7.2", "5.7.3", "5.8.1", "5.8.2", "5.8.3", "5.8.4", "5.8.5",
)
# rules tartiflette documents as supported (docs/graphql-query-rules-supported.md); 5.6.2 / 5.6.4 are folded into
# "values of correct type" by the project, 5.3.2 is documented as not supported.
SUPPORTED = tuple(r for r in ALL_RULES if r not in ("5.3.2",))


def _nullable(t):
    return t[1] if t and t[0] == "nn" else t


class Validator:
    def __init__(self, schema, document):
        self.s = schema
        self.d = document
        self.details = []
        self.frags = {}
        for f in document.fragments:
            self.frags.setdefault(f.name, f)
        # variable usages per definition index: list of (var name, location type, has location default)
        self.usages = {}
        self.spreads_in = {}
        self.cur = None

    def err(self, rule, msg):
        self.details.append((rule, msg))

    # ------------------------------------------------------------------------------------------------------------------
    def run(self):
        d = self.d
        ops = d.operations
        for x in d.defs:
            if isinstance(x, RawDef):
                self.err("5.1.1", "non executable definition " + x.kind)
        names = [o.name for o in ops if o.name]
        for n in set(names):
            if names.count(n) > 1:
                self.err("5.2.1.1", "operation name %s not unique" % n)
        if len(ops) > 1 and any(o.name is None for o in ops):
            self.err("5.2.2.1", "anonymous operation not alone")
        fnames = [f.name for f in d.fragments]
        for n in set(fnames):
            if fnames.count(n) > 1:
                self.err("5.5.1.1", "fragment name %s not unique" % n)
        for i, x in enumerate(d.defs):
            self.cur = i
            self.usages[i] = []
            self.spreads_in[i] = []
            if isinstance(x, Operation):
                self.operation(x)
            elif isinstance(x, Fragment):
                self.fragment(x)
        self.cycles()
        self.fragments_used()
        self.variables()
        cyclic = any(r == "5.5.2.2" for r, _ in self.details)
        for o in ops:
            rt = self.s.root(o.kind)
            if rt and self.s.type(rt) and not cyclic:
                self.merge_check(rt, o.sel)
            if o.kind == "subscription" and rt:
                self.single_root(o, rt)
        return {r for r, _ in self.details}

    # -- definitions -----------------------------------------------------------------------------------------------------
    def operation(self, o):
        vnames = [v.name for v in o.vars]
        for n in set(vnames):
            if vnames.count(n) > 1:
                self.err("5.8.1", "variable $%s defined twice" % n)
        for v in o.vars:
            t = parse_type_str(v.type)
            td = self.s.type(named_of(t))
            if td is None or td.kind not in ("SCALAR", "ENUM", "INPUT_OBJECT"):
                self.err("5.8.2", "variable $%s is not of an input type (%s)" % (v.name, v.type))
                continue
            if v.default is not None:
                self.value(t, v.default, "variable default", in_const=True)
        self.directives(o.dirs, EXECUTABLE_LOCATION[o.kind])
        rt = self.s.root(o.kind)
        self.selection_set(o.sel, rt if rt and self.s.type(rt) else None)

    def fragment(self, f):
        self.directives(f.dirs, "FRAGMENT_DEFINITION")
        td = self.s.type(f.on)
        if td is None:
            self.err("5.5.1.2", "fragment %s on unknown type %s" % (f.name, f.on))
            self.selection_set(f.sel, None)
            return
        if td.kind not in ("OBJECT", "INTERFACE", "UNION"):
            self.err("5.5.1.3", "fragment %s on non composite type %s" % (f.name, f.on))
            self.selection_set(f.sel, None)
            return
        self.selection_set(f.sel, f.on)

    # -- selections ------------------------------------------------------------------------------------------------------
    def selection_set(self, sel, scope):
        for s in sel:
            if isinstance(s, Field):
                self.field(s, scope)
            elif isinstance(s, Spread):
                self.directives(s.dirs, "FRAGMENT_SPREAD")
                self.spreads_in[self.cur].append(s.name)
                f = self.frags.get(s.name)
                if f is None:
                    self.err("5.5.2.1", "spread of undefined fragment %s" % s.name)
                elif scope is not None and self.s.is_composite(f.on):
                    if not self.overlap(scope, f.on):
                        self.err("5.5.2.3", "fragment %s (on %s) cannot be spread in %s" % (s.name, f.on, scope))
            else:
                self.directives(s.dirs, "INLINE_FRAGMENT")
                inner = scope
                if s.on is not None:
                    td = self.s.type(s.on)
                    if td is None:
                        self.err("5.5.1.2", "inline fragment on unknown type %s" % s.on)
                        inner = None
                    elif td.kind not in ("OBJECT", "INTERFACE", "UNION"):
                        self.err("5.5.1.3", "inline fragment on non composite type %s" % s.on)
                        inner = None
                    else:
                        inner = s.on
                        if scope is not None and not self.overlap(scope, s.on):
                            self.err("5.5.2.3", "inline fragment on %s cannot be spread in %s" % (s.on, scope))
                self.selection_set(s.sel, inner)

    def overlap(self, a, b):
        return bool(set(self.s.possible_types(a)) & set(self.s.possible_types(b)))

    def field(self, f, scope):
        self.directives(f.dirs, "FIELD")
        fd = None
        ftype = None
        if scope is not None:
            if f.name == "__typename":
                ftype = ("nn", ("named", "String"))
                fd = False
            elif scope == self.s.query and f.name in ("__schema", "__type"):
                fd = False
                ftype = "introspection"
                if f.name == "__type":
                    anames = [a.name for a in f.args]
                    if "name" not in anames:
                        self.err("5.4.2.1", "__type requires name")
                    for a in f.args:
                        if a.name != "name":
                            self.err("5.4.1", "unknown argument %s on __type" % a.name)
                        else:
                            self.value(("nn", ("named", "String")), a.value, "__type(name:)")
                elif f.args:
                    self.err("5.4.1", "unknown argument on __schema")
            else:
                td = self.s.type(scope)
                fd = td.field(f.name) if td.kind in ("OBJECT", "INTERFACE") else None
                if fd is None:
                    self.err("5.3.1", "field %s does not exist on %s" % (f.name, scope))
                else:
                    ftype = fd.type
        anames = [a.name for a in f.args]
        for n in set(anames):
            if anames.count(n) > 1:
                self.err("5.4.2", "argument %s given twice on field %s" % (n, f.name))
        if fd:
            self.arguments(fd.args, f.args, "field " + f.name)
        elif fd is False and ftype != "introspection" and f.args:
            self.err("5.4.1", "unknown argument on __typename")
        elif fd is None:
            for a in f.args:
                self.value(None, a.value, "unknown")
        # leaf selections
        if ftype == "introspection":
            return  # sub-selection of meta fields is validated against the introspection schema: not modelled
        if ftype is not None:
            nt = named_of(ftype)
            if self.s.is_leaf(nt):
                if f.sel is not None:
                    self.err("5.3.3", "selection on leaf field %s" % f.name)
                    self.selection_set(f.sel, None)
            else:
                if f.sel is None:
                    self.err("5.3.3", "missing selection on composite field %s" % f.name)
                else:
                    self.selection_set(f.sel, nt)
        elif f.sel is not None:
            self.selection_set(f.sel, None)

    # -- arguments / directives / values -------------------------------------------------------------------------------------
    def arguments(self, argdefs, args, where):
        defs = {a.name: a for a in argdefs}
        given = set()
        for a in args:
            ad = defs.get(a.name)
            if ad is None:
                self.err("5.4.1", "unknown argument %s on %s" % (a.name, where))
                self.value(None, a.value, where)
                continue
            given.add(a.name)
            self.value(ad.type, a.value, where, loc_default=ad.default is not None)
        for ad in argdefs:
            if ad.type[0] == "nn" and ad.default is None and ad.name not in given:
                self.err("5.4.2.1", "required argument %s missing on %s" % (ad.name, where))

    def directives(self, dirs, location):
        names = [d.name for d in dirs]
        for n in set(names):
            if names.count(n) > 1:
                self.err("5.7.3", "directive @%s repeated" % n)
        for d in dirs:
            anames = [a.name for a in d.args]
            for n in set(anames):
                if anames.count(n) > 1:
                    self.err("5.4.2", "argument %s given twice on @%s" % (n, d.name))
            dd = self.s.directive(d.name)
            if dd is None:
                self.err("5.7.1", "unknown directive @%s" % d.name)
                for a in d.args:
                    self.value(None, a.value, "unknown directive")
                continue
            if location not in dd.locations:
                self.err("5.7.2", "directive @%s not allowed on %s" % (d.name, location))
            self.arguments(dd.args, d.args, "@" + d.name)

    def value(self, t, v, where, loc_default=False, in_const=False):
        """5.6.x on a value at a position of type t (None = unknown); records variable usages."""
        if isinstance(v, Var):
            if not in_const:
                self.usages[self.cur].append((v.name, t, loc_default))
            return
        if t is None:
            self.value_unknown(v, in_const)
            return
        if t[0] == "nn":
            if isinstance(v, NullV):
                self.err("5.6.1", "null for non-null type at %s" % where)
                return
            self.value(t[1], v, where, False, in_const)
            return
        if isinstance(v, NullV):
            return
        if t[0] == "list":
            if isinstance(v, ListV):
                for x in v.items:
                    self.value(t[1], x, where, False, in_const)
            else:
                self.value(t[1], v, where, False, in_const)
            return
        td = self.s.type(t[1])
        if td is None:
            self.value_unknown(v, in_const)
            return
        if td.kind == "INPUT_OBJECT":
            if not isinstance(v, ObjV):
                self.err("5.6.1", "expected input object %s at %s" % (td.name, where))
                self.value_unknown(v, in_const)
                return
            names = [n for n, _ in v.fields]
            for n in set(names):
                if names.count(n) > 1:
                    self.err("5.6.3", "input field %s given twice" % n)
            for n, x in v.fields:
                fd = td.field(n)
                if fd is None:
                    self.err("5.6.2", "unknown input field %s on %s" % (n, td.name))
                    self.err("5.6.1", "object literal with the unknown field %s is not coercible to %s" % (n, td.name))
                    self.value(None, x, where, False, in_const)
                else:
                    self.value(fd.type, x, where, fd.default is not None, in_const)
            for fd in td.fields:
                if fd.type[0] == "nn" and fd.default is None and fd.name not in names:
                    self.err("5.6.4", "required input field %s.%s missing" % (td.name, fd.name))
                    # ... which also makes the literal not coercible to the type: a violation of 5.6.1 (values of correct type), the
                    # rule under which the project documents (and performs) this check
                    self.err("5.6.1", "object literal without the required field %s is not coercible to %s" % (fd.name, td.name))
            return
        if isinstance(v, (ListV, ObjV)):
            self.err("5.6.1", "list/object literal for %s at %s" % (td.name, where))
            self.value_unknown(v, in_const)
            return
        if td.kind == "ENUM":
            if not (isinstance(v, EnumV) and any(ev.name == v.name for ev in td.values)):
                self.err("5.6.1", "bad enum literal for %s at %s" % (td.name, where))
            return
        r = C.coerce_scalar_literal(td.name, v, C.DEFAULT_POLICY)
        if r is C.INVALID:
            self.err("5.6.1", "bad literal for scalar %s at %s" % (td.name, where))

    def value_unknown(self, v, in_const):
        if isinstance(v, Var):
            if not in_const:
                self.usages[self.cur].append((v.name, None, False))
        elif isinstance(v, ListV):
            for x in v.items:
                self.value_unknown(x, in_const)
        elif isinstance(v, ObjV):
            names = [n for n, _ in v.fields]
            for n in set(names):
                if names.count(n) > 1:
                    self.err("5.6.3", "input field %s given twice" % n)
            for _, x in v.fields:
                self.value_unknown(x, in_const)

    # -- document-level ------------------------------------------------------------------------------------------------------
    def reach(self, idx):
        """indices of fragment definitions transitively spread from definition idx (first definition per name)"""
        first = {}
        for i, x in enumerate(self.d.defs):
            if isinstance(x, Fragment):
                first.setdefault(x.name, i)
        seen = []
        todo = list(self.spreads_in.get(idx, ()))
        while todo:
            n = todo.pop()
            i = first.get(n)
            if i is None or i in seen:
                continue
            seen.append(i)
            todo.extend(self.spreads_in.get(i, ()))
        return seen

    def cycles(self):
        first = {}
        for i, x in enumerate(self.d.defs):
            if isinstance(x, Fragment):
                first.setdefault(x.name, i)
        for name, i in first.items():
            if i in self.reach(i):
                self.err("5.5.2.2", "fragment %s is part of a cycle" % name)

    def fragments_used(self):
        used = set()
        for i, x in enumerate(self.d.defs):
            if isinstance(x, Operation):
                used.update(self.reach(i))
        for i, x in enumerate(self.d.defs):
            if isinstance(x, Fragment) and i not in used:
                # a duplicate definition of a used name is reported by 5.5.1.1 only
                if [f.name for f in self.d.fragments].count(x.name) > 1 and any(
                        self.d.defs[j].name == x.name for j in used):
                    continue
                self.err("5.5.1.4", "fragment %s is never used" % x.name)

    def variables(self):
        for i, o in enumerate(self.d.defs):
            if not isinstance(o, Operation):
                continue
            defs = {}
            for v in o.vars:
                defs.setdefault(v.name, v)
            uses = list(self.usages[i])
            for j in self.reach(i):
                uses.extend(self.usages[j])
            used = set()
            for name, loc_t, loc_default in uses:
                used.add(name)
                vd = defs.get(name)
                if vd is None:
                    self.err("5.8.3", "variable $%s not defined by operation %s" % (name, o.name))
                    continue
                if loc_t is None:
                    continue
                vt = parse_type_str(vd.type)
                vtd = self.s.type(named_of(vt))
                if vtd is None or vtd.kind not in ("SCALAR", "ENUM", "INPUT_OBJECT"):
                    continue
                if not self.usage_allowed(vd, vt, loc_t, loc_default):
                    self.err("5.8.5", "variable $%s of type %s used in position expecting %s"
                             % (name, vd.type, doc.type_to_str(loc_t)))
            for v in o.vars:
                if v.name not in used:
                    self.err("5.8.4", "variable $%s is never used in operation %s" % (v.name, o.name))

    @staticmethod
    def compatible(var_t, loc_t):
        if loc_t[0] == "nn":
            if var_t[0] != "nn":
                return False
            return Validator.compatible(var_t[1], loc_t[1])
        if var_t[0] == "nn":
            return Validator.compatible(var_t[1], loc_t)
        if loc_t[0] == "list":
            if var_t[0] != "list":
                return False
            return Validator.compatible(var_t[1], loc_t[1])
        if var_t[0] == "list":
            return False
        return var_t == loc_t

    def usage_allowed(self, vd, vt, loc_t, loc_default):
        if loc_t[0] == "nn" and vt[0] != "nn":
            has_nn_default = vd.default is not None and not isinstance(vd.default, NullV)
            if not has_nn_default and not loc_default:
                return False
            return self.compatible(vt, loc_t[1])
        return self.compatible(vt, loc_t)

    def single_root(self, o, rt):
        groups = {}
        self._collect_static(o.sel, groups, set())
        if len(groups) != 1:
            self.err("5.2.3.1", "subscription %s must have exactly one root field (has %d)" % (o.name, len(groups)))
        # (June 2018 has no explicit introspection restriction; __typename counts as a field of the set)

    def _collect_static(self, sel, groups, visited):
        for s in sel:
            if isinstance(s, Field):
                groups.setdefault(s.key, []).append(s)
            elif isinstance(s, Spread):
                if s.name in visited:
                    continue
                visited.add(s.name)
                f = self.frags.get(s.name)
                if f is not None:
                    self._collect_static(f.sel, groups, visited)
            else:
                self._collect_static(s.sel, groups, visited)

    # -- 5.3.2 field selection merging -----------------------------------------------------------------------------------------
    def fields_for(self, parent, sel, out, visited):
        """(parent type name | None, field node, field def | None) for every field in the set incl. fragments"""
        for s in sel:
            if isinstance(s, Field):
                fd = None
                if parent is not None and self.s.type(parent) is not None:
                    if s.name == "__typename":
                        fd = "typename"
                    else:
                        td = self.s.type(parent)
                        if td.kind in ("OBJECT", "INTERFACE"):
                            fd = td.field(s.name)
                out.append((parent, s, fd))
            elif isinstance(s, Spread):
                if s.name in visited:
                    continue
                visited.add(s.name)
                f = self.frags.get(s.name)
                if f is not None:
                    self.fields_for(f.on if self.s.is_composite(f.on) else None, f.sel, out, visited)
            else:
                p = parent
                if s.on is not None:
                    p = s.on if self.s.is_composite(s.on) else None
                self.fields_for(p, s.sel, out, visited)
        return out

    def merge_check(self, parent, sel):
        self._merge_seen = set()
        self.fields_can_merge(self.fields_for(parent, sel, [], set()))

    def _ftype(self, fd):
        if fd == "typename":
            return ("nn", ("named", "String"))
        return fd.type if fd else None

    def same_shape(self, a, b):
        (pa, fa, da), (pb, fb, db) = a, b
        ta, tb = self._ftype(da), self._ftype(db)
        if ta is None or tb is None:
            return True  # unknown fields are reported by 5.3.1
        while True:
            if ta[0] == "nn" or tb[0] == "nn":
                if ta[0] != "nn" or tb[0] != "nn":
                    return False
                ta, tb = ta[1], tb[1]
                continue
            if ta[0] == "list" or tb[0] == "list":
                if ta[0] != "list" or tb[0] != "list":
                    return False
                ta, tb = ta[1], tb[1]
                continue
            break
        if self.s.is_leaf(ta[1]) or self.s.is_leaf(tb[1]):
            return ta == tb
        if not (self.s.is_composite(ta[1]) and self.s.is_composite(tb[1])):
            return False
        merged = []
        self.fields_for(ta[1], fa.sel or (), merged, set())
        self.fields_for(tb[1], fb.sel or (), merged, set())
        by_key = {}
        for x in merged:
            by_key.setdefault(x[1].key, []).append(x)
        for key, xs in by_key.items():
            for i in range(len(xs)):
                for j in range(i + 1, len(xs)):
                    if not self.same_shape(xs[i], xs[j]):
                        return False
        return True

    def fields_can_merge(self, fields):
        by_key = {}
        for x in fields:
            by_key.setdefault(x[1].key, []).append(x)
        for key, xs in by_key.items():
            for i in range(len(xs)):
                for j in range(i + 1, len(xs)):
                    a, b = xs[i], xs[j]
                    pid = (id(a[1]), id(b[1]), a[0], b[0])
                    if pid in self._merge_seen:
                        continue
                    self._merge_seen.add(pid)
                    if not self.same_shape(a, b):
                        self.err("5.3.2", "fields under key %s have different shapes" % key)
                        continue
                    pa, pb = a[0], b[0]
                    ka = self.s.type(pa).kind if pa and self.s.type(pa) else None
                    kb = self.s.type(pb).kind if pb and self.s.type(pb) else None
                    if pa == pb or ka != "OBJECT" or kb != "OBJECT":
                        if a[1].name != b[1].name:
                            self.err("5.3.2", "key %s selects different fields %s / %s" % (key, a[1].name, b[1].name))
                            continue
                        if set(a[1].args) != set(b[1].args) or len(a[1].args) != len(b[1].args):
                            self.err("5.3.2", "key %s selects %s with different arguments" % (key, a[1].name))
                            continue
                        ta, tb = self._ftype(a[2]), self._ftype(b[2])
                        if ta is None or tb is None:
                            continue
                        merged = []
                        na, nb = named_of(ta), named_of(tb)
                        if self.s.is_composite(na):
                            self.fields_for(na, a[1].sel or (), merged, set())
                        if self.s.is_composite(nb):
                            self.fields_for(nb, b[1].sel or (), merged, set())
                        self.fields_can_merge(merged)
            # a single field still needs its own sub-selection checked
            if len(xs) == 1:
                a = xs[0]
                ta = self._ftype(a[2])
                if ta is not None and self.s.is_composite(named_of(ta)) and a[1].sel:
                    self.fields_can_merge(self.fields_for(named_of(ta), a[1].sel, [], set()))


def validate(schema, document):
    v = Validator(schema, document)
    rules = v.run()
    return rules


def validate_details(schema, document):
    v = Validator(schema, document)
    rules = v.run()
    return rules, v.details
