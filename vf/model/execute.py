"""E5: June-2018 request execution (section 6), plus the expected resolver-call log (DESIGN Appendix A)."""
from dataclasses import dataclass, field as dc_field

from vf import doc
from vf.doc import Field, Spread, Inline, Operation, Fragment
from vf.model import coerce as C
from vf.model.coerce import INVALID, ABSENT, ArgError
from vf.data import lookup, default_resolve, builtin_typename, read_key

ANY = C._Tok("ANY")  # value not predicted by the model (introspection sub-trees)


class FieldErr(Exception):
    pass


@dataclass
class Outcome:
    status: str = "ok"  # ok | request_error | var_error
    data: object = None
    failures: dict = dc_field(default_factory=dict)  # path tuple -> list of Field nodes (origin of each field error)
    nulled: list = dc_field(default_factory=list)  # positions turned into null by error handling; () = whole data
    calls: list = dc_field(default_factory=list)  # (path, id(parent), frozen args)
    bad_vars: set = dc_field(default_factory=set)
    variables: dict = dc_field(default_factory=dict)


def get_operation(document, op_name):
    ops = document.operations
    if op_name:
        for o in ops:
            if o.name == op_name:
                return o
        return None
    if len(ops) == 1:
        return ops[0]
    return None


class Executor:
    def __init__(self, schema, document, scn, pol=C.DEFAULT_POLICY):
        self.s = schema
        self.d = document
        self.scn = scn
        self.pol = pol
        self.frags = {f.name: f for f in document.fragments}
        self.out = Outcome()
        self.vars = {}

    # -- 6.3.2 --------------------------------------------------------------------------------------------------------
    def applies(self, obj_type, cond):
        if cond is None or cond == obj_type:
            return True
        return obj_type in self.s.possible_types(cond) and self.s.type(cond).kind in ("INTERFACE", "UNION")

    def included(self, dirs):
        for d in dirs:
            if d.name in ("skip", "include"):
                dd = self.s.directive(d.name)
                try:
                    a = C.coerce_arguments(self.s, dd.args, d.args, self.vars, self.pol)
                except ArgError:
                    return False
                if d.name == "skip" and a.get("if") is True:
                    return False
                if d.name == "include" and a.get("if") is False:
                    return False
        return True

    def collect(self, obj_type, sel, groups, visited):
        for s in sel:
            if not self.included(s.dirs):
                continue
            if isinstance(s, Field):
                groups.setdefault(s.key, []).append(s)
            elif isinstance(s, Spread):
                if s.name in visited:
                    continue
                visited.add(s.name)
                f = self.frags.get(s.name)
                if f is None or not self.applies(obj_type, f.on):
                    continue
                self.collect(obj_type, f.sel, groups, visited)
            else:
                if not self.applies(obj_type, s.on):
                    continue
                self.collect(obj_type, s.sel, groups, visited)
        return groups

    # -- 6.3 / 6.4 ---------------------------------------------------------------------------------------------------------
    def selection_set(self, groups, obj_type, source, path):
        result = {}
        failed = False
        for key, nodes in groups.items():
            try:
                result[key] = self.field(obj_type, source, nodes, path + (key,))
            except FieldErr:
                failed = True  # later siblings are still attempted (DC8)
        if failed:
            raise FieldErr()
        return result

    def fail(self, path, nodes):
        self.out.failures.setdefault(path, nodes)
        raise FieldErr()

    def field(self, obj_type, source, nodes, path):
        name = nodes[0].name
        if name == "__typename":
            return obj_type
        if name in ("__schema", "__type") and obj_type == self.s.query:
            return ANY
        fd = self.s.field_def(obj_type, name)
        assert fd is not None, (obj_type, name)
        t = fd.type
        try:
            try:
                args = C.coerce_arguments(self.s, fd.args, nodes[0].args, self.vars, self.pol)
            except ArgError:
                self.fail(path, nodes)
            fq = "%s.%s" % (obj_type, name)
            if self.scn.has_resolver(fq):
                self.out.calls.append((path, id(source), C.freeze(args)))
                fault = self.scn.faults.get(path)
                if fault in ("raise", "raise_te", "raise_te_ctor", "return_exc", "raise_shared", "raise_shared_plain", "raise_multi", "raise_msgattr", "raise_te_enriched", "raise_coercible", "raise_multi_shared", "raise_keyerror"):
                    self.fail(path, nodes)
                if fault == "none":
                    v = None
                elif fault == "value":
                    v = self.scn.fault_values[path]
                elif path in self.scn.overrides:
                    v = self.scn.overrides[path]
                else:
                    v = lookup(source, name)
            else:
                v = default_resolve(source, name)
            return self.complete(t, nodes, v, path, fq)
        except FieldErr:
            if t[0] == "nn":
                raise
            self.out.nulled.append(path)
            return None

    def complete(self, t, nodes, v, path, fq):
        if t[0] == "nn":
            r = self.complete(t[1], nodes, v, path, fq)
            if r is None:
                self.fail(path, nodes)
            return r
        if v is None:
            return None
        if isinstance(v, Exception):
            self.fail(path, nodes)  # an exception instance as a value (field result or list item) is a failure there
        if t[0] == "list":
            if not isinstance(v, list):
                self.fail(path, nodes)
            out = []
            failed = False
            for i, item in enumerate(v):
                ipath = path + (i,)
                try:
                    out.append(self.complete(t[1], nodes, item, ipath, fq))
                except FieldErr:
                    if t[1][0] == "nn":
                        failed = True
                    else:
                        self.out.nulled.append(ipath)
                        out.append(None)
            if failed:
                raise FieldErr()
            return out
        td = self.s.type(t[1])
        if td.kind in ("SCALAR", "ENUM"):
            r = C.coerce_result_leaf(self.s, td.name, v)
            if r is INVALID:
                self.fail(path, nodes)
            return r
        if td.kind == "OBJECT":
            rt = td.name
        else:
            rt = self.resolve_type(td.name, v, fq)
            rtd = self.s.type(rt) if isinstance(rt, str) else None
            if rtd is None or rtd.kind != "OBJECT" or rt not in self.s.possible_types(td.name):
                self.fail(path, nodes)
        groups = {}
        visited = set()
        for n in nodes:
            if n.sel:
                self.collect(rt, n.sel, groups, visited)
        return self.selection_set(groups, rt, v, path)

    def resolve_type(self, abstract, v, fq):
        cfg = self.scn.typecfg
        if fq in cfg.get("field", ()):
            return read_key(v, "_t_field")
        if abstract in cfg.get("type", ()):
            return read_key(v, "_t_type")
        if cfg.get("engine"):
            return read_key(v, "_t_engine")
        return builtin_typename(v)

    # -- 6.1 / 6.2 ---------------------------------------------------------------------------------------------------------
    def run(self, op_name, raw_vars, root):
        op = get_operation(self.d, op_name)
        if op is None:
            self.out.status = "request_error"
            return self.out
        self.vars, bad = C.coerce_variables(self.s, op, raw_vars, self.pol)
        self.out.variables = self.vars
        if bad:
            self.out.status = "var_error"
            self.out.bad_vars = bad
            return self.out
        rt = self.s.root(op.kind)
        groups = self.collect(rt, op.sel, {}, set())
        try:
            self.out.data = self.selection_set(groups, rt, root, ())
        except FieldErr:
            self.out.nulled.append(())
            self.out.data = None
        return self.out


def execute_request(schema, document, op_name, raw_vars, scn, pol=C.DEFAULT_POLICY, root=None):
    return Executor(schema, document, scn, pol).run(op_name, raw_vars, scn.root if root is None else root)


def data_equal(expected, got):
    """ordered comparison; ANY in `expected` matches anything; ints/floats/bools are type-sensitive"""
    if expected is ANY:
        return True
    if isinstance(expected, dict):
        if not isinstance(got, dict) or list(expected.keys()) != list(got.keys()):
            return False
        return all(data_equal(expected[k], got[k]) for k in expected)
    if isinstance(expected, list):
        return isinstance(got, list) and len(expected) == len(got) and all(data_equal(a, b) for a, b in zip(expected, got))
    return type(expected) is type(got) and expected == got
