"""E5: the type-system rules named in C12's statement, over the schema model (spec section 3).

violations(schema) -> set of rule labels.  Used to certify that schema rewrites stay valid (C11) and that violation
rewrites really break the rule they target (C12)."""
from vf import doc, schema as S


def _covariant(schema, impl_t, iface_t):
    """is impl_t a valid (sub)type of iface_t for interface field implementation?"""
    if iface_t[0] == "nn":
        return impl_t[0] == "nn" and _covariant(schema, impl_t[1], iface_t[1])
    if impl_t[0] == "nn":
        return _covariant(schema, impl_t[1], iface_t)
    if iface_t[0] == "list":
        return impl_t[0] == "list" and _covariant(schema, impl_t[1], iface_t[1])
    if impl_t[0] == "list":
        return False
    if impl_t == iface_t:
        return True
    it = schema.type(iface_t[1])
    mt = schema.type(impl_t[1])
    if it is None or mt is None:
        return False
    if it.kind == "INTERFACE" and mt.kind == "OBJECT" and it.name in mt.interfaces:
        return True
    if it.kind == "UNION" and mt.kind == "OBJECT" and mt.name in it.members:
        return True
    return False


def violations(schema):
    v = set()
    names = [t.name for t in schema.types]
    for n in set(names):
        if names.count(n) > 1:
            v.add("duplicate-type")
    for n in names:
        if n in S.BUILTIN_SCALARS:
            v.add("duplicate-type")
    dnames = [d.name for d in schema.directives]
    for n in set(dnames):
        if dnames.count(n) > 1 or schema.directive(n) is not None and n in [b.name for b in S.BUILTIN_DIRECTIVES]:
            v.add("duplicate-directive")

    def check_input_type(t, where):
        td = schema.type(doc.named_of(t))
        if td is None:
            v.add("undefined-type:" + where)
        elif td.kind not in ("SCALAR", "ENUM", "INPUT_OBJECT"):
            v.add("non-input-type:" + where)

    def check_output_type(t, where):
        td = schema.type(doc.named_of(t))
        if td is None:
            v.add("undefined-type:" + where)
        elif td.kind == "INPUT_OBJECT":
            v.add("non-output-type:" + where)

    for t in schema.types:
        if t.kind in ("OBJECT", "INTERFACE"):
            if not t.fields:
                v.add("no-fields:" + t.kind.lower())
            fn = [f.name for f in t.fields]
            if len(set(fn)) != len(fn):
                v.add("duplicate-field")
            for f in t.fields:
                check_output_type(f.type, "field")
                an = [a.name for a in f.args]
                if len(set(an)) != len(an):
                    v.add("duplicate-argument")
                for a in f.args:
                    check_input_type(a.type, "argument")
        if t.kind == "OBJECT":
            if len(set(t.interfaces)) != len(t.interfaces):
                v.add("duplicate-interface")
            for iname in t.interfaces:
                it = schema.type(iname)
                if it is None:
                    v.add("implements-undefined")
                    continue
                if it.kind != "INTERFACE":
                    v.add("implements-non-interface")
                    continue
                for ifield in it.fields:
                    of = t.field(ifield.name)
                    if of is None:
                        v.add("interface-field-missing")
                        continue
                    if not _covariant(schema, of.type, ifield.type):
                        v.add("interface-field-type")
                    for ia in ifield.args:
                        oa = of.arg(ia.name)
                        if oa is None:
                            v.add("interface-argument-missing")
                        elif oa.type != ia.type:
                            v.add("interface-argument-type")
                    for oa in of.args:
                        if ifield.arg(oa.name) is None and oa.type[0] == "nn" and oa.default is None:
                            v.add("interface-extra-required-argument")
        if t.kind == "UNION":
            if len(set(t.members)) != len(t.members):
                v.add("duplicate-union-member")
            if not t.members:
                v.add("empty-union")
            for m in t.members:
                mt = schema.type(m)
                if m == t.name:
                    v.add("union-contains-itself")
                elif mt is None:
                    v.add("undefined-type:union-member")
                elif mt.kind != "OBJECT":
                    v.add("union-member-not-object")
        if t.kind == "ENUM":
            vn = [x.name for x in t.values]
            if len(set(vn)) != len(vn):
                v.add("duplicate-enum-value")
            if not vn:
                v.add("empty-enum")
        if t.kind == "INPUT_OBJECT":
            fn = [f.name for f in t.fields]
            if len(set(fn)) != len(fn):
                v.add("duplicate-input-field")
            if not t.fields:
                v.add("no-fields:input")
            for f in t.fields:
                check_input_type(f.type, "input-field")
    for d in schema.directives:
        for a in d.args:
            check_input_type(a.type, "directive-argument")
    if not schema.query or schema.type(schema.query) is None:
        v.add("query-root-missing")
    elif schema.type(schema.query).kind != "OBJECT":
        v.add("root-not-object")
    for kind in ("mutation", "subscription"):
        r = schema.root(kind)
        if r is not None and schema.type(r) is None:
            v.add("undefined-root:" + kind)
        elif r is not None and schema.type(r).kind != "OBJECT":
            v.add("root-not-object")
    return v
