"""E3: stateless model checking of the real engine under a controlled asyncio event loop (DESIGN 2.5).

VLoop         an asyncio.BaseEventLoop without selector; the explorer pops `_ready` itself, virtual time.
Sched         suspension points: `await sched.point(label)` registers a future; completing it is an environment choice.
explore()     deviation-bounded DFS over choice sequences; every execution replays a prefix of choices on a fresh
              request and then takes the default choice (0) at every later point.

Choice points (canonical enabled lists, ascending registration number):
  E  at quiescence (no ready callback): which pending future completes next          (default: oldest)
  I  between two ready callbacks: keep running (default) or complete pending future k *now*   (injection / batching)
"""
import asyncio
import heapq
from asyncio import base_events, events


class Deadlock(Exception):
    pass


class Livelock(Exception):
    pass


class ReplayDivergence(Exception):
    """a replayed prefix met a different choice point than recorded: machinery error"""


class VLoop(base_events.BaseEventLoop):
    def __init__(self):
        super().__init__()
        self._vtime = 0.0
        self.steps = 0

    def time(self):
        return self._vtime

    def _process_events(self, event_list):
        pass

    def _write_to_self(self):
        pass

    def has_ready(self):
        while self._ready and self._ready[0]._cancelled:
            self._ready.popleft()
        return bool(self._ready)

    def step(self):
        h = self._ready.popleft()
        self.steps += 1
        if not h._cancelled:
            h._run()

    def fire_timers(self):
        """nothing ready: jump virtual time to the earliest timer (engine code has none today)"""
        while self._scheduled and self._scheduled[0]._cancelled:
            heapq.heappop(self._scheduled)
        if not self._scheduled:
            return False
        h = heapq.heappop(self._scheduled)
        self._vtime = max(self._vtime, h._when)
        h._scheduled = False
        self._ready.append(h)
        return True


class Sched:
    def __init__(self, loop):
        self.loop = loop
        self.pending = []  # [(seq, label, future)]
        self.seq = 0
        self.log = []  # ("suspend"|"complete", label)

    async def point(self, label):
        fut = self.loop.create_future()
        self.seq += 1
        self.pending.append((self.seq, label, fut))
        self.log.append(("suspend", label))
        await fut

    def complete(self, k):
        seq, label, fut = self.pending.pop(k)
        self.log.append(("complete", label))
        if not fut.done():
            fut.set_result(None)
        return label


class Execution:
    __slots__ = ("result", "exception", "trace", "sched", "steps", "status", "choices", "leftover_tasks", "pending_at_end")


def run_one(loop, make_task, prefix, inject=True, horizon=200000):
    """one execution: replay `prefix` (list of ints), then defaults.  make_task(sched) -> coroutine.

    returns Execution with trace = [(kind, n_options, chosen)] for every choice point met.
    """
    sched = Sched(loop)
    ex = Execution()
    ex.sched = sched
    ex.trace = []
    ex.status = "ok"
    ex.leftover_tasks = []
    ex.pending_at_end = []
    ex.result = None
    ex.exception = None
    events._set_running_loop(loop)
    start_steps = loop.steps
    task = None
    try:
        task = loop.create_task(make_task(sched))
        k = 0
        while not task.done():
            if loop.steps - start_steps > horizon:
                ex.status = "livelock"
                break
            ready = loop.has_ready()
            n_pending = len(sched.pending)
            if ready:
                if n_pending and inject:
                    # I choice: 0 = run the next callback, j>=1 = complete pending[j-1] now
                    c = prefix[k] if k < len(prefix) else 0
                    if c > n_pending:
                        raise ReplayDivergence("I-choice %d of %d at point %d" % (c, n_pending + 1, k))
                    ex.trace.append(("I", n_pending + 1, c))
                    k += 1
                    if c:
                        sched.complete(c - 1)
                        continue
                loop.step()
                continue
            if n_pending:
                c = prefix[k] if k < len(prefix) else 0
                if c >= n_pending:
                    raise ReplayDivergence("E-choice %d of %d at point %d" % (c, n_pending, k))
                ex.trace.append(("E", n_pending, c))
                k += 1
                sched.complete(c)
                continue
            if loop.fire_timers():
                continue
            ex.status = "deadlock"
            break
        if k < len(prefix):
            raise ReplayDivergence("execution ended after %d of %d recorded choices" % (k, len(prefix)))
        if task.done():
            if task.cancelled():
                ex.status = "cancelled"
            elif task.exception() is not None:
                ex.exception = task.exception()
                ex.status = "raised"
            else:
                ex.result = task.result()
        # drain callbacks scheduled by completion (done callbacks, gather bookkeeping)
        n = 0
        while task.done() and loop.has_ready() and n < 10000:
            loop.step()
            n += 1
        ex.leftover_tasks = [t for t in asyncio.all_tasks(loop) if not t.done() and t is not task]
        ex.pending_at_end = [label for _, label, _ in sched.pending]
    finally:
        # leave the loop clean whatever happened (also on ReplayDivergence)
        try:
            for t in asyncio.all_tasks(loop):
                if not t.done():
                    t.cancel()
            n = 0
            while loop.has_ready() and n < 100000:
                loop.step()
                n += 1
            for _, _, fut in sched.pending:
                if not fut.done():
                    fut.cancel()
            while loop.has_ready() and n < 200000:
                loop.step()
                n += 1
            for t in asyncio.all_tasks(loop):
                if t.done() and not t.cancelled():
                    t.exception()  # mark retrieved
        finally:
            events._set_running_loop(None)
    ex.steps = loop.steps - start_steps
    ex.choices = [c for _, _, c in ex.trace]
    return ex


def explore(loop, make_task, on_execution, max_i=1, max_e=None, max_executions=None, inject=True):
    """deviation-bounded DFS.  on_execution(ex) is called for every complete execution.

    max_i : bound on I-deviations (non-default choices at I points) per execution
    max_e : bound on E-deviations (None = unbounded: all completion orders)
    returns dict(executions, choice_points, capped)
    """
    stack = [[]]
    n_exec = 0
    n_points = 0
    capped = False
    while stack:
        prefix = stack.pop()
        ex = run_one(loop, make_task, prefix, inject=inject and max_i > 0)
        n_exec += 1
        on_execution(ex)
        if max_executions and n_exec >= max_executions:
            capped = bool(stack)
            break
        # deviations used so far within the prefix
        i_used = sum(1 for (kind, n, c) in ex.trace[:len(prefix)] if kind == "I" and c)
        e_used = sum(1 for (kind, n, c) in ex.trace[:len(prefix)] if kind == "E" and c)
        # (positions beyond the prefix all took the default, cost 0)
        for i in range(len(prefix), len(ex.trace)):
            kind, n, c = ex.trace[i]
            n_points += 1
            if kind == "I":
                if i_used >= max_i:
                    continue
            else:
                if max_e is not None and e_used >= max_e:
                    continue
            base = ex.choices[:i]
            for alt in range(1, n):
                stack.append(base + [alt])
    return {"executions": n_exec, "choice_points": n_points, "capped": capped}


def replay_twice(loop, make_task, choices, observe):
    """determinism self-check: the same schedule must yield identical observations"""
    a = observe(run_one(loop, make_task, list(choices)))
    b = observe(run_one(loop, make_task, list(choices)))
    return a == b, a, b
