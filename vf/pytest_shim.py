"""pytest plugin: registers the parser stand-in before the repository's own tests are collected (conformance corpus)."""
from vf import boot  # noqa: F401
