"""A tartiflette *module* (the `modules=` option of create_engine) used by C17: it brings its own SDL and registrations.

`bake(schema_name, config)` is called by the engine at cook time, once per schema name that lists the module.
"""
from tartiflette import Resolver


async def bake(schema_name, config):
    base = (config or {}).get("base", "no-config")
    suffix = (config or {}).get("suffix", "")

    @Resolver("Query.modval", schema_name=schema_name)
    async def modval(parent, args, ctx, info):
        return "%s:%s%s" % (schema_name, base, suffix)

    return "extend type Query { modval: String }"
