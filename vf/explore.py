"""Shared pieces of the E1 explorations: engine cache, BFS over documents, request enumeration, case comparison."""
import hashlib
import itertools
import json

from vf import doc, harness, rewrite, schema as S
from vf.data import Scenario, build_root
from vf.model import coerce as C, execute as X, validate as V

_ENGINES = {}


def engine_for(key, schema, **kw):
    """one cooked engine per (key) per worker process"""
    e = _ENGINES.get(key)
    if e is None:
        if kw.pop("layout", None) == "extend":
            # the same schema written as base definitions plus `extend` blocks (last field / member / value of every type moved out)
            from vf import schema_rewrite as SR
            kw["sdl"] = "\n\n".join(SR.sdl_parts(schema, True)) + "\n"
        e = harness.build_engine(schema, **kw)
        _ENGINES[key] = e
    return e


def h64(text):
    return int.from_bytes(hashlib.blake2b(text.encode("utf-8", "surrogateescape"), digest_size=8).digest(), "big")


def bfs(schema, seed_doc, depth, kinds_by_level=None, level1_slice=None, certify=None):
    """Breadth-first search over valid documents within `depth` rewrites of seed_doc.

    yields (document, level, trail of rewrite kinds).  `level1_slice=(k, n)` keeps only the level-1 states whose
    index is k modulo n (and the seed itself when k == 0) so that shards partition the space.
    stats: dict updated in place with transitions / discarded counts.
    """
    stats = {"transitions": 0, "discarded_invalid": 0, "duplicates": 0, "kinds": {}, "kinds_discarded": {}}
    certify = certify or (lambda d: not V.validate(schema, d))
    seen = {rewrite.canon(seed_doc)}
    frontier = [(seed_doc, ())]
    if level1_slice is None or level1_slice[0] == 0:
        yield seed_doc, 0, (), stats
    for level in range(1, depth + 1):
        kinds = kinds_by_level.get(level) if kinds_by_level else None
        nxt = []
        for d, trail in frontier:
            for kind, d2 in rewrite.neighbours(schema, d, kinds):
                stats["transitions"] += 1
                key = rewrite.canon(d2)
                if key in seen:
                    stats["duplicates"] += 1
                    continue
                seen.add(key)
                if not certify(d2):
                    stats["discarded_invalid"] += 1
                    stats["kinds_discarded"][kind] = stats["kinds_discarded"].get(kind, 0) + 1
                    continue
                stats["kinds"][kind] = stats["kinds"].get(kind, 0) + 1
                nxt.append((d2, trail + (kind,)))
        if level == 1 and level1_slice is not None:
            k, n = level1_slice
            nxt = [x for i, x in enumerate(nxt) if i % n == k]
        for d2, trail in nxt:
            yield d2, level, trail, stats
        frontier = nxt


_VAR_VALUES = {
    "Int": [3], "Float": [1.5], "String": ["v"], "ID": ["i1"], "Tag": ["tg"], "Color": ["GREEN"],
    "P": [{"a": 1}],
}


def variable_assignments(schema, op, with_null=False):
    """all assignments: Booleans exhaustively, one representative for other types, absent where legal (explicit null on request)"""
    choices = []
    for vd in op.vars:
        t = doc.parse_type_str(vd.type)
        inner = t[1] if t[0] == "nn" else t
        opts = []
        if inner == ("named", "Boolean"):
            opts = [True, False]
        elif inner[0] == "named":
            opts = list(_VAR_VALUES.get(inner[1], []))
        elif inner[0] == "list":
            base = _VAR_VALUES.get(doc.named_of(inner), [])
            opts = [[b] for b in base]
        if t[0] != "nn" or vd.default is not None:
            opts.append(C.ABSENT)
        if with_null and t[0] != "nn":
            opts.insert(0, None)
        if not opts:
            opts = [C.ABSENT]
        choices.append([(vd.name, o) for o in opts])
    for combo in itertools.product(*choices):
        yield {n: v for n, v in combo if v is not C.ABSENT}


def path_of(e):
    """response path of one error entry as a tuple; a path that is neither a list nor null can equal no expected path"""
    p = e.get("path") if isinstance(e, dict) else None
    if p is None:
        return ()
    if isinstance(p, list):
        return tuple(p)
    return ("<path is not a list>", repr(p))


def error_shape(e):
    """None when an `errors` entry has the shape every oracle relies on, else a clause name (so that an oracle reports it instead of
    crashing on it): dict, str message, path list or null, locations null or a list of {line: int, column: int}"""
    if not isinstance(e, dict):
        return "error-entry-not-a-dict"
    if not isinstance(e.get("message"), str):
        return "error-without-message"
    if e.get("path") is not None and not isinstance(e.get("path"), list):
        return "error-path-not-a-list"
    locs = e.get("locations")
    if locs is not None:
        if not isinstance(locs, list):
            return "error-locations-not-a-list"
        for l in locs:
            if not (isinstance(l, dict) and type(l.get("line")) is int and type(l.get("column")) is int):
                return "error-location-malformed"
    return None


def error_paths(resp):
    return [path_of(e) for e in resp.get("errors") or []]


def compare_case(schema, located_doc, text, engine, scn, op_name, variables, policies=None):
    """run engine + model on one request; -> (ok, info dict)"""
    try:
        resp = harness.execute(engine, text, scn, operation_name=op_name, variables=variables)
    except Exception as e:  # execute must never raise
        return False, {"clause": "execute-raised", "exception": repr(e)}
    log = sorted(scn.log)
    last = None
    for pol in (policies or [C.DEFAULT_POLICY]):
        exp = X.execute_request(schema, located_doc, op_name, variables, scn, pol)
        last = exp
        clause = judge(exp, resp, log)
        if clause is None:
            return True, {"exp": exp, "resp": resp}
    return False, {"clause": clause, "expected_data": last.data, "expected_failures": sorted(map(list, last.failures)),
                   "expected_calls": len(last.calls), "observed_calls": len(log), "response": resp,
                   "expected_status": last.status}


def judge(exp, resp, log):
    if not isinstance(resp, dict) or "data" not in resp:
        return "envelope"
    if exp.status != "ok":
        if resp["data"] is not None or not resp.get("errors"):
            return "refusal-expected"
        if log:
            return "resolver-ran-on-refused-request"
        return None
    if any("rule" in (e.get("extensions") or {}) for e in resp.get("errors") or []):
        return "valid-document-refused"
    if not X.data_equal(exp.data, resp["data"]):
        return "data-mismatch"
    if sorted(exp.calls) != log:
        return "calls-mismatch"
    return None
