"""Schema model (frozen dataclasses), SDL -> model (through vf.gqlparse), model -> SDL printer.

The model is the *meaning* of an SDL: `extend` definitions are folded into their target.  The printer can emit
members back in `extend` form (C11 / C12 exercise both spellings).
"""
from dataclasses import dataclass, field, replace
from typing import Any, Optional, Tuple

from vf import doc, gqlparse
from vf.doc import parse_type_str, type_to_str, named_of, value_from_ast

BUILTIN_SCALARS = ("Int", "Float", "String", "Boolean", "ID", "Date", "Time", "DateTime")
SPEC_SCALARS = ("Int", "Float", "String", "Boolean", "ID")


@dataclass(frozen=True)
class DirUse:
    name: str
    args: Tuple[Tuple[str, Any], ...] = ()  # (name, const value node)


@dataclass(frozen=True)
class ArgDef:
    name: str
    type: Any  # typeref tuple
    default: Any = None  # const value node or None
    dirs: Tuple[DirUse, ...] = ()
    desc: Optional[str] = None


@dataclass(frozen=True)
class FieldDef:
    name: str
    type: Any
    args: Tuple[ArgDef, ...] = ()
    dirs: Tuple[DirUse, ...] = ()
    desc: Optional[str] = None

    def arg(self, name):
        for a in self.args:
            if a.name == name:
                return a
        return None


@dataclass(frozen=True)
class EnumVal:
    name: str
    dirs: Tuple[DirUse, ...] = ()
    desc: Optional[str] = None


@dataclass(frozen=True)
class TypeDef:
    kind: str  # OBJECT INTERFACE UNION ENUM SCALAR INPUT_OBJECT
    name: str
    fields: Tuple[Any, ...] = ()  # FieldDef (OBJECT/INTERFACE) or ArgDef (INPUT_OBJECT)
    interfaces: Tuple[str, ...] = ()
    members: Tuple[str, ...] = ()
    values: Tuple[EnumVal, ...] = ()
    dirs: Tuple[DirUse, ...] = ()
    desc: Optional[str] = None

    def field(self, name):
        for f in self.fields:
            if f.name == name:
                return f
        return None


@dataclass(frozen=True)
class DirectiveDef:
    name: str
    args: Tuple[ArgDef, ...] = ()
    locations: Tuple[str, ...] = ()
    desc: Optional[str] = None

    def arg(self, name):
        for a in self.args:
            if a.name == name:
                return a
        return None


BUILTIN_DIRECTIVES = (
    DirectiveDef("deprecated", (ArgDef("reason", ("named", "String"), doc.StrV("No longer supported")),),
                 ("FIELD_DEFINITION", "ENUM_VALUE")),
    DirectiveDef("nonIntrospectable", (), ("FIELD_DEFINITION", "SCHEMA")),
    DirectiveDef("skip", (ArgDef("if", ("nn", ("named", "Boolean"))),), ("FIELD", "FRAGMENT_SPREAD", "INLINE_FRAGMENT")),
    DirectiveDef("include", (ArgDef("if", ("nn", ("named", "Boolean"))),),
                 ("FIELD", "FRAGMENT_SPREAD", "INLINE_FRAGMENT")),
)


@dataclass(frozen=True)
class Schema:
    types: Tuple[TypeDef, ...] = ()
    directives: Tuple[DirectiveDef, ...] = ()
    query: Optional[str] = "Query"
    mutation: Optional[str] = None
    subscription: Optional[str] = None
    schema_block: bool = False
    schema_dirs: Tuple[DirUse, ...] = ()

    # -- lookups -------------------------------------------------------------------------------------------------------
    def type(self, name):
        for t in self.types:
            if t.name == name:
                return t
        if name in BUILTIN_SCALARS:
            return TypeDef("SCALAR", name)
        return None

    def directive(self, name):
        for d in self.directives:
            if d.name == name:
                return d
        for d in BUILTIN_DIRECTIVES:
            if d.name == name:
                return d
        return None

    def root(self, op_kind):
        return {"query": self.query, "mutation": self.mutation, "subscription": self.subscription}[op_kind]

    def possible_types(self, name):
        t = self.type(name)
        if t is None:
            return ()
        if t.kind == "OBJECT":
            return (name,)
        if t.kind == "UNION":
            return t.members
        if t.kind == "INTERFACE":
            return tuple(o.name for o in self.types if o.kind == "OBJECT" and name in o.interfaces)
        return ()

    def is_composite(self, name):
        t = self.type(name)
        return t is not None and t.kind in ("OBJECT", "INTERFACE", "UNION")

    def is_leaf(self, name):
        t = self.type(name)
        return t is not None and t.kind in ("SCALAR", "ENUM")

    def is_input(self, name):
        t = self.type(name)
        return t is not None and t.kind in ("SCALAR", "ENUM", "INPUT_OBJECT")

    def is_output(self, name):
        t = self.type(name)
        return t is not None and t.kind != "INPUT_OBJECT"

    def field_def(self, type_name, field_name):
        t = self.type(type_name)
        if t is None or t.kind not in ("OBJECT", "INTERFACE"):
            return None
        return t.field(field_name)

    def with_type(self, new):
        return replace(self, types=tuple(new if t.name == new.name else t for t in self.types))

    def add_type(self, new):
        return replace(self, types=self.types + (new,))


# ---- SDL -> model --------------------------------------------------------------------------------------------------------
def _typeref(t):
    return parse_type_str(doc.type_str(t))


def _diruses(ds):
    return tuple(DirUse(d["name"]["value"], tuple((a["name"]["value"], value_from_ast(a["value"])) for a in (d["arguments"] or ())))
                 for d in (ds or ()))


def _argdefs(args):
    return tuple(ArgDef(a["name"]["value"], _typeref(a["type"]),
                        value_from_ast(a["defaultValue"]) if a["defaultValue"] else None, _diruses(a["directives"]),
                        desc=a.get("_description"))
                 for a in (args or ()))


def _fielddefs(fields):
    return tuple(FieldDef(f["name"]["value"], _typeref(f["type"]), _argdefs(f["arguments"]), _diruses(f["directives"]),
                          desc=f.get("_description"))
                 for f in fields)


_KINDS = {"ObjectTypeDefinition": "OBJECT", "InterfaceTypeDefinition": "INTERFACE", "UnionTypeDefinition": "UNION",
          "EnumTypeDefinition": "ENUM", "ScalarTypeDefinition": "SCALAR", "InputObjectTypeDefinition": "INPUT_OBJECT"}


def _typedef(d):
    k = _KINDS[d["kind"]]
    name = d["name"]["value"]
    dirs = _diruses(d["directives"])
    desc = d.get("_description")
    if k in ("OBJECT", "INTERFACE"):
        return TypeDef(k, name, _fielddefs(d["fields"]),
                       tuple(i["name"]["value"] for i in (d.get("interfaces") or ())), dirs=dirs, desc=desc)
    if k == "UNION":
        return TypeDef(k, name, members=tuple(t["name"]["value"] for t in d["types"]), dirs=dirs, desc=desc)
    if k == "ENUM":
        return TypeDef(k, name, values=tuple(EnumVal(v["name"]["value"], _diruses(v["directives"]), desc=v.get("_description"))
                                            for v in d["values"]),
                       dirs=dirs, desc=desc)
    if k == "SCALAR":
        return TypeDef(k, name, dirs=dirs, desc=desc)
    return TypeDef(k, name, _argdefs(d["fields"]), dirs=dirs, desc=desc)


def parse_sdl(text):
    ast = gqlparse.parse_json_ast(text)
    types, exts, dirs = [], [], []
    roots = None
    schema_dirs = ()
    for d in ast["definitions"]:
        k = d["kind"]
        if k in _KINDS:
            types.append(_typedef(d))
        elif k == "TypeExtensionDefinition":
            exts.append(d["definition"])
        elif k == "DirectiveDefinition":
            dirs.append(DirectiveDef(d["name"]["value"], _argdefs(d["arguments"]),
                                     tuple(l["value"] for l in d["locations"]), desc=d.get("_description")))
        elif k == "SchemaDefinition":
            roots = {o["operation"]: o["type"]["name"]["value"] for o in d["operationTypes"]}
            schema_dirs = _diruses(d["directives"])
        else:
            raise ValueError("not a type-system definition: " + k)
    by_name = {t.name: t for t in types}
    for e in exts:
        if e["kind"] == "SchemaDefinition":
            roots = dict(roots or {})
            roots.update({o["operation"]: o["type"]["name"]["value"] for o in e["operationTypes"]})
            schema_dirs = schema_dirs + _diruses(e["directives"])
            continue
        x = _typedef(e)
        b = by_name[x.name]
        assert b.kind == x.kind, (b, x)
        by_name[x.name] = replace(b, fields=b.fields + x.fields, interfaces=b.interfaces + x.interfaces,
                                  members=b.members + x.members, values=b.values + x.values, dirs=b.dirs + x.dirs)
    types = tuple(by_name[t.name] for t in types)
    if roots is None:
        names = set(by_name)
        return Schema(types, tuple(dirs), "Query", "Mutation" if "Mutation" in names else None,
                      "Subscription" if "Subscription" in names else None, False, ())
    return Schema(types, tuple(dirs), roots.get("query"), roots.get("mutation"), roots.get("subscription"), True,
                  schema_dirs)


# ---- model -> SDL ----------------------------------------------------------------------------------------------------------
def value_str(v):
    e = doc.Emitter()
    doc.print_value(e, v)
    return e.text()


def _dirs_str(dirs):
    out = ""
    for d in dirs:
        out += " @" + d.name
        if d.args:
            out += "(" + ", ".join("%s: %s" % (n, value_str(v)) for n, v in d.args) + ")"
    return out


def _desc_str(desc, indent=""):
    if desc is None:
        return ""
    return indent + doc.escape_string(desc) + "\n"


def _arg_str(a, inline=False):
    s = "%s: %s" % (a.name, type_to_str(a.type))
    if inline and a.desc is not None:
        s = doc.escape_string(a.desc) + " " + s
    if a.default is not None:
        s += " = " + value_str(a.default)
    return s + _dirs_str(a.dirs)


def _field_str(f):
    s = f.name
    if f.args:
        s += "(" + ", ".join(_arg_str(a, True) for a in f.args) + ")"
    return s + ": " + type_to_str(f.type) + _dirs_str(f.dirs)


def print_type(t, extend=False):
    kw = {"OBJECT": "type", "INTERFACE": "interface", "UNION": "union", "ENUM": "enum", "SCALAR": "scalar",
          "INPUT_OBJECT": "input"}[t.kind]
    head = ("" if extend else _desc_str(t.desc)) + ("extend " if extend else "") + kw + " " + t.name
    if t.kind == "OBJECT" and t.interfaces:
        head += " implements " + " & ".join(t.interfaces)
    head += _dirs_str(t.dirs)
    if t.kind in ("OBJECT", "INTERFACE"):
        if not t.fields:
            return head
        return head + " {\n" + "".join(_desc_str(f.desc, "  ") + "  " + _field_str(f) + "\n" for f in t.fields) + "}"
    if t.kind == "INPUT_OBJECT":
        if not t.fields:
            return head
        return head + " {\n" + "".join(_desc_str(f.desc, "  ") + "  " + _arg_str(f) + "\n" for f in t.fields) + "}"
    if t.kind == "UNION":
        if not t.members:
            return head
        return head + " = " + " | ".join(t.members)
    if t.kind == "ENUM":
        if not t.values:
            return head
        return head + " {\n" + "".join(_desc_str(v.desc, "  ") + "  " + v.name + _dirs_str(v.dirs) + "\n" for v in t.values) + "}"
    return head


def print_directive(d):
    s = _desc_str(d.desc) + "directive @" + d.name
    if d.args:
        s += "(" + ", ".join(_arg_str(a, True) for a in d.args) + ")"
    return s + " on " + " | ".join(d.locations)


def print_schema_block(s):
    ops = []
    if s.query:
        ops.append("  query: " + s.query)
    if s.mutation:
        ops.append("  mutation: " + s.mutation)
    if s.subscription:
        ops.append("  subscription: " + s.subscription)
    return "schema" + _dirs_str(s.schema_dirs) + " {\n" + "\n".join(ops) + "\n}"


def sdl_parts(s):
    """list of top-level definition strings"""
    parts = [print_directive(d) for d in s.directives]
    parts += [print_type(t) for t in s.types]
    if s.schema_block:
        parts.append(print_schema_block(s))
    return parts


def print_sdl(s):
    return "\n\n".join(sdl_parts(s)) + "\n"


def roundtrip_sdl(s):
    text = print_sdl(s)
    back = parse_sdl(text)
    if back != s:
        raise doc.MachineryError("SDL print/parse round trip changed the schema model:\n%s" % text)
    return text
