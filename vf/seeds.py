"""Hand-written seed schemas and documents (initial states of the rewrite BFS, DESIGN 4)."""
from vf import schema as S, doc

K_SDL = """
directive @dq(n: Int = 1, t: Tag, p: P) on QUERY | MUTATION | SUBSCRIPTION | FIELD | FRAGMENT_DEFINITION | FRAGMENT_SPREAD | INLINE_FRAGMENT
directive @dqf on FIELD
directive @dqo on QUERY
directive @dr(must: Int!) on FIELD
directive @darg on ARGUMENT_DEFINITION

interface Node {
  id: ID!
  name: String
  peer: Node
}

interface Named {
  name: String
}

type A implements Node & Named {
  id: ID!
  name: String
  peer: Node
  a: Int
  pets: [Pet]
  echo(x: Int = 7, s: String): String
}

type B implements Node {
  id: ID!
  name: String
  peer: Node
  b: Float
  tags: [String!]
  strict: Int!
}

type C implements Named {
  id: ID!
  c: Color
  name: String
  node: Node
}

union Pet = A | C

enum Color {
  RED
  GREEN
  BLUE
}

scalar Tag

input P {
  a: Int
  b: String = "x"
  c: [Int!]
}

input Rng {
  from: Int!
  to: Int!
  step: Int = 1
  tags: [String!]!
}

type Query {
  node: Node
  nodes: [Node!]
  a: A
  b: B
  c: C
  pet: Pet
  pets: [Pet]
  hello(n: Int, t: Tag, p: P, e: Color = RED, req: Int! = 3, x: String): String
  num: Int!
  color: Color
  tag: Tag
  ints: [Int]
  matrix: [[Int!]]
  need(x: Int!, y: Int): Int
  lst(xs: [Int!], m: [[Int]], ps: [P]): Int
  two(a: Int @darg, b: Int @darg, c: Int = 3 @darg): String
  alist: [A]
  named: Named
  nameds: [Named]
  span(r: Rng, rs: [Rng!]): Int
}

type Mutation {
  inc(by: Int = 1, step: Int! = 1): Int
  set(v: String, s: Int): A
  must: Int!
  other: B
  many: [A!]
  req: A!
}

type Subscription {
  tick(n: Int): A
  count(from: Int = 5, step: Int! = 1): Int
  strict: Int!
}
"""

K = S.parse_sdl(K_SDL)

# ~10 small documents that together contain one alias, inline fragment, named fragment, variable, directive, 2 ops
K_DOCS = [
    "{ num color }",
    "{ a { id name a } b { b tags } }",
    "{ x: num num y: color }",
    "{ node { id ... on A { a } ... on B { b } } }",
    "{ nodes { ...NF } } fragment NF on Node { id name }",
    "query Q($s: Boolean!) { num @skip(if: $s) color @include(if: $s) }",
    "{ pets { __typename ... on A { a } ... on C { c } } }",
    "{ hello(n: 1, p: {a: 2}) a { echo(s: \"q\") } }",
    "query One { num } query Two { color }",
    "{ a { peer { id peer { id } } pets { ... on A { id } } } }",
    "{ a { id } a { name } }",
    "{ c { node { ...NF2 } } pet { ... on Node { id } } } fragment NF2 on Node { id ... on A { a } }",
    "{ nodes { ... on Node { peer { id } } ... on A { peer { name } } ... on B { peer { __typename } } } }",
    "{ a { ...PF peer { name } } b { ...PF peer { id } } } fragment PF on Node { peer { __typename } }",
    "{ named { __typename name ... on Node { id } ... on C { c } } nameds { name ... on A { a } } node { ... on Named { name } } }",
    "query D($n: Int = 2) @dq { num @dq(n: $n) ...DF @dq ... @dq(t: \"x\") { color } } fragment DF on Query @dq { need(x: 1) }",
    "{ lst(xs: [1, 2], m: [[1], null], ps: [{a: 1, c: [2]}]) hello(e: BLUE, t: \"x\", p: {b: \"y\"}) }",
]

K_SUBSCRIPTIONS = [
    "subscription S { tick { id a } }",
    "subscription S($n: Int) { t: tick(n: $n) { ...TF } } fragment TF on A { id name }",
]

K_MUTATIONS = [
    "mutation { inc set(v: \"x\") { id } }",
    "mutation { a: inc(by: 2) b: inc other { b } }",
]


def k_docs():
    return [doc.parse(t) for t in K_DOCS]


# ---- schema W: one field per wrapper shape x leaf kind -----------------------------------------------------------------
W_SHAPES_1 = ["T", "T!", "[T]", "[T]!", "[T!]", "[T!]!"]
W_SHAPES_2 = ["[[T]]", "[[T]]!", "[[T]!]", "[[T]!]!", "[[T!]]", "[[T!]]!", "[[T!]!]", "[[T!]!]!"]
W_SHAPES_3 = ["[[[T]]]", "[[[T!]]!]", "[[[T]!]]!", "[[[T!]!]!]!"]
W_KINDS = ["Int", "Float", "String", "ID", "Boolean", "Color", "Tag", "O", "I", "U"]


def w_field_name(kind, shape_index):
    return "f_%s_%d" % (kind, shape_index)


def w_sdl(shapes):
    lines = []
    for k in W_KINDS:
        for i, sh in enumerate(shapes):
            lines.append("  %s: %s" % (w_field_name(k, i), sh.replace("T", k)))
    return """
enum Color { RED GREEN BLUE }
scalar Tag
interface I { x: Int }
type O implements I { x: Int y: String }
type O2 implements I { x: Int z: Int! }
type O3 { x: Int }
union U = O | O3
type Query {
%s
}
""" % "\n".join(lines)


def w_schema(tier="quick"):
    shapes = W_SHAPES_1 + W_SHAPES_2 + W_SHAPES_3
    return S.parse_sdl(w_sdl(shapes)), shapes
