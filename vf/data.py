"""Resolver data: what the harness resolvers return.  Shared by the harness (real resolvers) and by E5 (prediction).

A *scenario* fixes everything a request's resolvers do: the root data tree, per-path faults and overrides, which
fields have a harness resolver, how runtime types are named.  It travels as the request `context`.
"""
import collections
import types

from vf import doc


class Row:
    """an object that only supports row["key"] (KeyError when absent)"""
    __slots__ = ("_d",)

    def __init__(self, d):
        object.__setattr__(self, "_d", d)

    def __getitem__(self, k):
        return self._d[k]


def lookup(parent, name):
    """what a harness resolver returns for field `name` of `parent` (absent -> None)"""
    if isinstance(parent, dict):
        return parent.get(name)
    return getattr(parent, name, None)


def default_resolve(parent, name):
    """documented default resolver: attribute, then key, else null"""
    try:
        return getattr(parent, name)
    except AttributeError:
        pass
    try:
        return parent[name]
    except (KeyError, TypeError, IndexError):
        pass
    return None


def read_key(v, key):
    if isinstance(v, dict):
        return v.get(key)
    return getattr(v, key, None)


def builtin_typename(v):
    """documented default type resolver: `_typename` key, `_typename` attribute, class name"""
    try:
        return v["_typename"]
    except (KeyError, TypeError, IndexError):
        pass
    try:
        return v._typename
    except AttributeError:
        pass
    return v.__class__.__name__


class Obj:
    """attribute-style data object"""

    def __init__(self, **kw):
        self.__dict__.update(kw)

    def __repr__(self):
        return "Obj(%r)" % (self.__dict__,)


class Scenario:
    def __init__(self, root=None, faults=None, fault_values=None, overrides=None, resolvers="all", typecfg=None,
                 label=""):
        self.root = root
        self.faults = faults or {}
        self.fault_values = fault_values or {}
        self.overrides = overrides or {}
        self.resolvers = resolvers  # "all" or a set of "Type.field"
        self.typecfg = typecfg or {}
        self.label = label
        self.source_events = []
        self.suspend = None  # None = every harness resolver suspends when a scheduler is attached; else a set of paths
        self.suspend_hooks = False
        self.reset()

    def reset(self):
        self.log = []  # (path, id(parent), frozen args)
        self.counters = {"resolver": 0, "type_resolver": 0, "hook": 0, "source": 0, "scalar": 0}
        self.events = []
        self.sched = None

    def has_resolver(self, fq):
        return self.resolvers == "all" or fq in self.resolvers


# ---- deterministic data trees -------------------------------------------------------------------------------------------
class TreeBuilder:
    """Builds a data tree for an object type: every field of every possible type gets a value.

    variant: int selecting runtime types at abstract positions, nulls and list lengths (deterministic, no randomness).
    style:   'dict' | 'attr' (objects as dicts with `_typename` keys or Obj with attributes)
    """

    def __init__(self, schema, variant=0, depth=4, style="dict", naming="key"):
        self.s = schema
        self.variant = variant
        self.depth = depth
        self.style = style
        self.naming = naming
        self.counter = 0
        self.objs = 0

    def tick(self):
        self.counter += 1
        return self.counter + self.variant

    def leaf(self, name, path_hint):
        n = self.tick()
        td = self.s.type(name)
        if td.kind == "ENUM":
            return td.values[n % len(td.values)].name
        if name == "Int":
            return n % 50
        if name == "Float":
            return n * 0.5
        if name == "String":
            return "s%d" % n
        if name == "Boolean":
            return n % 2 == 0
        if name == "ID":
            return "id%d" % n if n % 2 else n
        if name == "Tag":
            return "t%d" % n
        return "v%d" % n

    def value(self, t, depth, nullable_hint=True):
        if t[0] == "nn":
            return self.value(t[1], depth, False)
        if nullable_hint and self.tick() % 5 == 0:
            return None
        if t[0] == "list":
            # variants >= 100 grow longer lists (3-6 items) so that per-item bookkeeping beyond the second item is exercised
            n = (3 + self.tick() % 4) if self.variant >= 100 else self.tick() % 3
            return [self.value(t[1], depth, True) for _ in range(n)]
        td = self.s.type(t[1])
        if td.kind in ("SCALAR", "ENUM"):
            return self.leaf(td.name, None)
        if depth <= 0:
            return None
        return self.obj(td, depth - 1)

    def obj(self, td, depth):
        poss = self.s.possible_types(td.name)
        if not poss:
            return None
        k = self.tick()
        self.objs += 1
        rt = poss[(self.objs + self.variant) % len(poss)]  # consecutive objects (list items) get different runtime types
        fields = {}
        # every possible type's fields so that any naming level may pick any possible type
        for pn in (poss if td.kind != "OBJECT" else (rt,)):
            for f in self.s.type(pn).fields:
                if f.name not in fields:
                    v = self.value(f.type, depth)
                    if v is None and f.type[0] == "nn":
                        # depth exhausted under a non-null position: keep the tree well typed where possible
                        v = self.value(f.type, 1) if self.s.is_leaf(doc.named_of(f.type)) else None
                    fields[f.name] = v
        fields["_typename"] = rt
        if td.kind != "OBJECT":
            fields["_t_field"] = poss[(k + 1) % len(poss)]
            fields["_t_type"] = poss[(k + 2) % len(poss)]
            fields["_t_engine"] = poss[(k + 3) % len(poss)]
        else:
            fields["_t_field"] = fields["_t_type"] = fields["_t_engine"] = rt
        if self.style == "attr":
            return Obj(**fields)
        if self.style == "proxy":
            return types.MappingProxyType(fields)       # a Mapping that is not a dict
        if self.style == "userdict":
            return collections.UserDict(fields)         # a MutableMapping that is not a dict
        if self.style == "getitem":
            return Row(fields)                          # subscriptable, no attributes, not a Mapping (like a DB row)
        return fields

    def root(self, type_name):
        td = self.s.type(type_name)
        return self.obj(td, self.depth)


def build_root(schema, type_name, variant=0, depth=4, style="dict"):
    return TreeBuilder(schema, variant, depth, style).root(type_name)
