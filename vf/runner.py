"""Common entry point: shards a property's exploration over a fork pool, aggregates, judges, writes evidence.

    python -m vf.runner C01 --tier quick            (wrapped by /verif/check)

A property module (vf.props.cNN) provides
    PROPERTY = "C01"; LEVEL = "model_checking"
    def shards(tier, seed) -> list of picklable work items            (the whole bounded space, partitioned)
    def run_shard(item) -> dict(counts=..., tables=..., sets=..., samples=[...], violations=[...], machinery=[...])
    def finish(agg, tier) -> dict with evidence coverage fields (rule, explanation, states/transitions keys ...)
    def replay(record) -> list of violations (empty when the replayed case passes)
Exit codes: 0 held (known findings listed) / 1 VIOLATION / 2 MACHINERY.
"""
import argparse
import importlib
import json
import multiprocessing as mp
import os
import sys
import time
import traceback

VERIF = os.path.dirname(os.path.dirname(os.path.abspath(__file__)))


def _worker(args):
    modname, item = args
    mod = importlib.import_module(modname)
    t0 = time.time()
    try:
        r = mod.run_shard(item)
    except Exception:
        r = {"machinery": ["shard %r crashed:\n%s" % (item if len(repr(item)) < 200 else repr(item)[:200], traceback.format_exc())]}
    r["_wall"] = time.time() - t0
    return r


def _limit_memory():
    """each worker may use at most VERIF_WORKER_MEM_GB (default 6) of address space: a runaway allocation fails as MemoryError"""
    try:
        import resource
        gb = float(os.environ.get("VERIF_WORKER_MEM_GB", "6"))
        resource.setrlimit(resource.RLIMIT_AS, (int(gb * 2 ** 30), int(gb * 2 ** 30)))
    except Exception:  # noqa
        pass


class Agg:
    def __init__(self):
        self.counts = {}
        self.tables = {}
        self.sets = {}
        self.samples = []
        self.violations = []
        self.machinery = []
        self.shards_done = 0
        self.shards_total = 0
        self.caps = []

    def add(self, r):
        self.shards_done += 1
        for k, v in (r.get("counts") or {}).items():
            self.counts[k] = self.counts.get(k, 0) + v
        for name, tab in (r.get("tables") or {}).items():
            t = self.tables.setdefault(name, {})
            for k, v in tab.items():
                t[k] = t.get(k, 0) + v
        for name, items in (r.get("sets") or {}).items():
            self.sets.setdefault(name, set()).update(items)
        for s in r.get("samples") or []:
            if len(self.samples) < 12:
                self.samples.append(s)
        self.violations.extend(r.get("violations") or [])
        self.machinery.extend(r.get("machinery") or [])
        self.caps.extend(r.get("caps") or [])


def load_findings():
    p = os.path.join(VERIF, "known_findings.json")
    if not os.path.exists(p):
        return []
    with open(p) as f:
        return json.load(f).get("findings", [])


def run_property(pid, tier, seed, jobs=None, budget=None):
    modname = "vf.props." + pid.lower()
    mod = importlib.import_module(modname)
    t0 = time.time()
    items = mod.shards(tier, seed)
    # the seed only rotates the order in which shards are handed out
    if items:
        k = seed % len(items)
        items = items[k:] + items[:k]
    agg = Agg()
    agg.shards_total = len(items)
    jobs = jobs or int(os.environ.get("VERIF_JOBS", "0")) or min(16, os.cpu_count() or 1)
    budget = budget or float(os.environ.get("VERIF_BUDGET_S", "0")) or getattr(mod, "BUDGET_S", {}).get(tier, 3600)
    if jobs == 1 or len(items) <= 1:
        for it in items:
            agg.add(_worker((modname, it)))
            if time.time() - t0 > budget:
                break
    else:
        ctx = mp.get_context("fork")
        # a shard that never returns (a code under test that loops or grows without bound) must not hang the check: hard deadline
        hard = float(os.environ.get("VERIF_HARD_LIMIT_S", "0")) or max(4 * budget, budget + 600)
        # workers are recycled after a few shards: whatever a shard leaves behind in its process (caches of the library under test,
        # registries) is returned to the system instead of accumulating over a long run
        with ctx.Pool(min(jobs, len(items)), initializer=_limit_memory, maxtasksperchild=3) as pool:
            it = pool.imap_unordered(_worker, [(modname, x) for x in items], chunksize=1)
            while True:
                try:
                    r = it.next(timeout=max(1.0, hard - (time.time() - t0)))
                except StopIteration:
                    break
                except mp.TimeoutError:
                    pool.terminate()
                    agg.machinery.append("%d of %d shards had not returned after %.0f s (hard limit): the code under test or the check "
                                         "does not terminate" % (agg.shards_total - agg.shards_done, agg.shards_total, hard))
                    break
                agg.add(r)
                if time.time() - t0 > budget:
                    pool.terminate()
                    break
    if agg.shards_done < agg.shards_total:
        agg.caps.append("time budget %ss reached after %d of %d shards" % (budget, agg.shards_done, agg.shards_total))
    return mod, agg, time.time() - t0


def judge_and_report(pid, mod, agg, tier, seed, wall):
    findings = [f for f in load_findings() if f.get("property") == pid]
    open_f = {f["signature"]: f for f in findings if f.get("status") == "open"}
    known_hits = {}
    fresh = []
    for v in agg.violations:
        sig = v.get("signature")
        if sig in open_f:
            known_hits.setdefault(sig, []).append(v)
        else:
            fresh.append(v)
    rdir = os.path.join(VERIF, "replays", pid)
    os.makedirs(rdir, exist_ok=True)
    for old in os.listdir(rdir):
        try:
            os.unlink(os.path.join(rdir, old))
        except OSError:
            pass
    lines = []
    for ki, (sig, vs) in enumerate(sorted(known_hits.items())):
        lines.append("KNOWN-FINDING: property=%s %s [%s] (%d cases this run)" % (pid, open_f[sig].get("what", ""), sig, len(vs)))
        rec = dict(vs[0])
        rec["property"] = pid
        rec["same_signature_cases"] = len(vs)
        with open(os.path.join(rdir, "known_%03d.json" % (ki + 1)), "w") as f:
            json.dump(rec, f, indent=1, default=repr)
    seen_sig = {}
    for v in fresh:
        seen_sig.setdefault(v.get("signature"), []).append(v)
    n = 0
    for sig, vs in sorted(seen_sig.items(), key=lambda kv: str(kv[0])):
        v = vs[0]
        n += 1
        path = os.path.join(rdir, "violation_%03d.json" % n)
        rec = dict(v)
        rec["property"] = pid
        rec["same_signature_cases"] = len(vs)
        with open(path, "w") as f:
            json.dump(rec, f, indent=1, default=repr)
        lines.append("VIOLATION property=%s replay=%s" % (pid, path))
        lines.append("  signature: %s (%d cases)" % (sig, len(vs)))
        lines.append("  summary: %s" % (str(v.get("summary"))[:600],))
        if n >= 25:
            lines.append("  ... further signatures suppressed (%d in total)" % len(seen_sig))
            break
    for m in agg.machinery[:10]:
        lines.append("MACHINERY property=%s %s" % (pid, m))
    cov = mod.finish(agg, tier)
    cov.setdefault("samples", agg.samples[:8] or ["(none)"])
    cov["exhaustive"] = bool(cov.get("exhaustive", True)) and not agg.caps and not agg.machinery
    cov["caps_hit"] = agg.caps
    cov["shards"] = {"done": agg.shards_done, "total": agg.shards_total}
    cov["counts"] = agg.counts
    if agg.tables:
        cov["tables"] = {k: dict(sorted(v.items())) for k, v in agg.tables.items()}
    cov["known_findings_hit"] = {sig: len(vs) for sig, vs in known_hits.items()}
    ev = {
        "property_id": pid,
        "tier": tier,
        "seed": seed,
        "level": getattr(mod, "LEVEL", "model_checking"),
        "coverage": cov,
        "assumptions": getattr(mod, "ASSUMPTIONS", []),
        "wall_s": round(wall, 2),
        "violations": len(fresh),
    }
    # evidence/ always describes runs against /repo itself; runs against another tree (seeded changes, mutants) go elsewhere
    other = os.environ.get("VERIF_REPO") not in (None, "", "/repo")
    evdir = os.path.join(VERIF, "build", "evidence_other_tree") if other else os.path.join(VERIF, "evidence")
    os.makedirs(evdir, exist_ok=True)
    with open(os.path.join(evdir, pid + ".json"), "w") as f:
        json.dump(ev, f, indent=1, default=repr)
    for l in lines:
        print(l)
    brief = {k: cov.get(k) for k in ("states", "transitions", "traces_validated_against_impl", "evaluations", "distinct_nontrivial", "exhaustive")}
    print("%s %s: %s wall=%.1fs violations=%d known=%d" % (pid, tier, brief, wall, len(fresh), len(known_hits)))
    if agg.machinery:
        return 2
    return 1 if fresh else 0


def main(argv=None):
    ap = argparse.ArgumentParser()
    ap.add_argument("property")
    ap.add_argument("--tier", default=os.environ.get("VERIF_TIER", "quick"), choices=["quick", "thorough"])
    ap.add_argument("--replay")
    ap.add_argument("--jobs", type=int)
    a = ap.parse_args(argv)
    pid = a.property.upper()
    seed = int(os.environ.get("VERIF_SEED", "0") or 0)
    if a.replay:
        mod = importlib.import_module("vf.props." + pid.lower())
        with open(a.replay) as f:
            rec = json.load(f)
        vs = mod.replay(rec)
        if vs:
            print("VIOLATION property=%s replay=%s" % (pid, a.replay))
            for v in vs[:5]:
                print("  " + str(v.get("summary"))[:1000])
            return 1
        print("replay passes: property=%s %s" % (pid, a.replay))
        return 0
    mod, agg, wall = run_property(pid, a.tier, seed, a.jobs)
    return judge_and_report(pid, mod, agg, a.tier, seed, wall)


if __name__ == "__main__":
    sys.exit(main())
