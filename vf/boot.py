"""Boot: make `import tartiflette` work from /repo's working tree with the parser stand-in (DESIGN 1.2, 2.1).

Importing this module
  * re-execs the interpreter with PYTHONHASHSEED=0 when asked to (ensure_hashseed()),
  * loads /verif/build/libgraphqlparser.so RTLD_GLOBAL and registers the Python parser as its callback,
  * points LIBGRAPHQLPARSER_DIR at /verif/build and puts REPO first on sys.path,
  * asserts that the tartiflette that gets imported is the one in REPO.
No file of /repo is modified and no hook in /repo is needed.
"""
import ctypes
import json
import os
import sys

VERIF = os.path.dirname(os.path.dirname(os.path.abspath(__file__)))
REPO = os.environ.get("VERIF_REPO", "/repo")
BUILD = os.path.join(VERIF, "build")
SO = os.path.join(BUILD, "libgraphqlparser.so")


def ensure_hashseed():
    if os.environ.get("PYTHONHASHSEED") != "0":
        env = dict(os.environ)
        env["PYTHONHASHSEED"] = "0"
        os.execve(sys.executable, [sys.executable] + sys.argv, env)


if not os.path.exists(SO):
    import subprocess

    subprocess.check_call([os.path.join(VERIF, "setup.sh")], stdout=subprocess.DEVNULL)

from vf import gqlparse  # noqa: E402

_lib = ctypes.CDLL(SO, mode=ctypes.RTLD_GLOBAL)
_CB = ctypes.CFUNCTYPE(None, ctypes.c_char_p)
_lib.verif_set_result.argtypes = [ctypes.c_char_p, ctypes.c_char_p]
_lib.verif_set_result.restype = None

PARSE_CALLS = [0]
PARSE_OVERRIDE = [None]  # optional callable(bytes) -> dict | raises GQLSyntaxError (used by self-tests only)


def _parse_cb(text):
    PARSE_CALLS[0] += 1
    old = sys.getrecursionlimit()
    try:
        sys.setrecursionlimit(max(old, 60000))
        fn = PARSE_OVERRIDE[0] or gqlparse.parse_json_ast
        ast = fn(text or b"")
        out = json.dumps(ast, ensure_ascii=False).encode("utf-8", "surrogateescape")
        _lib.verif_set_result(out, None)
    except gqlparse.GQLSyntaxError as e:
        _lib.verif_set_result(None, str(e).encode("utf-8", "replace"))
    except RecursionError:
        _lib.verif_set_result(None, b"1.1: memory exhausted")
    except BaseException as e:  # never let an exception escape into C
        _lib.verif_set_result(None, ("verif parser failure: %r" % (e,)).encode("utf-8", "replace"))
    finally:
        sys.setrecursionlimit(old)


_cb = _CB(_parse_cb)
_lib.verif_set_parser(_cb)
os.environ["LIBGRAPHQLPARSER_DIR"] = BUILD
if sys.path[0] != REPO:
    sys.path.insert(0, REPO)

import tartiflette  # noqa: E402

assert os.path.realpath(tartiflette.__file__).startswith(os.path.realpath(REPO) + os.sep), (
    "tartiflette imported from %s, expected %s" % (tartiflette.__file__, REPO)
)
