"""A module without `bake` (string form of the `modules=` option): importing it is all the engine does."""
