"""C18 — execute always answers with a well-formed GraphQL response (DESIGN 4/C18).

Exhaustive over: every string of length <= L over a 14-character alphabet, every single-token deletion / duplication /
replacement of the seed documents, byte spellings, deep nestings; x operation names x variables objects x error
coercers.  Oracle: envelope well-formedness, syntax errors / failed operation selection run nothing, the custom
error coercer is awaited exactly once per reported error and its return value is what appears.
"""
import asyncio
import itertools
import json

from vf import doc, explore, gqlparse, harness, schema as S
from vf.data import Scenario
from vf.model import execute as X, validate as V

PROPERTY = "C18"
LEVEL = "model_checking"
ASSUMPTIONS = ["which strings are syntax errors is decided by the parser stand-in (DC12)"]
BUDGET_S = {"quick": 600, "thorough": 1800}

SDL = """
directive @rej on ARGUMENT_DEFINITION | INPUT_FIELD_DEFINITION | FIELD_DEFINITION | FIELD
input In { a: Int = 2 @rej }
input In2 { n: In = {} m: [In] = [{}] }
type T { a: Int b(x: Int): String t: T }
type Query { a: Int b(x: Int = 1): String t: T l: [T] nn: Int! r(x: Int = 1 @rej, i: In): String @rej
  r2(i: In = {}, j: In2 = {}): String }
type Mutation { a: Int }
"""
SCHEMA = S.parse_sdl(SDL)
ROOT = {"a": 1, "b": "s", "nn": 2, "t": {"a": 3, "b": "u", "t": None}, "l": [{"a": 4}, None]}

ALPHABET = ["{", "}", "a", " ", "(", ")", ":", "$", '"', "1", ".", "@", "#", "\n"]
MAXLEN = {"quick": 4, "thorough": 5}
SEEDS = [
    "{ a b(x: 2) t { a } }",
    "query Q($v: Int = 1) { b(x: $v) l { a } }",
    "query A { a } query B { nn }",
    "{ ...F } fragment F on Query { a t { ...G } } fragment G on T { b }",
    "mutation M { a }",
    "{ a @skip(if: true) x: b(x: 1) ... on Query { nn } }",
]
TOKENS = ["{", "}", "(", ")", ":", "$", "@", "...", "!", "=", "[", "]", "a", "on", "query", "fragment", "1", "1.5",
          '"s"', "null"]
FAULT_DOC = "{ a nn t { a b t { a } } l { a } x: b(x: 2) }"
FAULT_PATHS = [("a",), ("nn",), ("t",), ("t", "a"), ("t", "b"), ("t", "t"), ("l",), ("l", 0, "a"), ("x",)]
FAULT_KINDS = ["raise", "raise_te", "raise_te_ctor", "raise_shared", "return_exc", "none", "value", "raise_msgattr", "raise_coercible", "raise_keyerror"]
COERCERS = ("default", "recording", "replacing", "suspending", "returning-none", "returning-empty-dict", "annotating")


class RejDirective:
    """directive hooks that refuse (raise a plain or a library exception) when the scenario says so"""

    def _maybe(self, ctx, kind):
        scn = harness.scenario_of(ctx)
        want = getattr(scn, "reject", None)
        if want and want[0] == kind:
            if want[1] == "library":
                raise harness.UserError("dev", user_message="refused by the %s hook" % kind, extensions={"code": "REJ"})
            raise ValueError("refused by the %s hook" % kind)

    async def on_argument_execution(self, directive_args, next_directive, parent_node, argument_definition_node, argument_node, value, ctx):
        self._maybe(ctx, "argument")
        return await next_directive(parent_node, argument_definition_node, argument_node, value, ctx)

    async def on_post_input_coercion(self, directive_args, next_directive, parent_node, value, ctx):
        self._maybe(ctx, "input")
        return await next_directive(parent_node, value, ctx)

    async def on_field_execution(self, directive_args, next_resolver, parent, args, ctx, info):
        self._maybe(ctx, "field")
        return await next_resolver(parent, args, ctx, info)

    async def on_field_collection(self, directive_args, next_directive, field_node, ctx):
        self._maybe(ctx, "collection")
        return await next_directive(field_node, ctx)


HOOK_DOCS = [("{ a r }", None), ("{ r(x: 2) a }", None), ("{ r(i: {}) }", None), ("{ a r(i: {a: 3}, x: 5) }", None),
             ("query($i: In) { r(i: $i) a }", {"i": {}}), ("query($i: In = {}) { r(i: $i) }", None), ("{ a @rej nn }", None),
             ("{ t { a @rej } x: r }", None), ("{ r2 }", None), ("{ a r2(j: {}) }", None), ("{ r2(i: {a: 1}, j: {n: {a: 1}}) }", None),
             ("query($j: In2) { r2(j: $j) }", {"j": {}}), ("query($j: In2) { r2(j: $j) }", {"j": {"n": {}, "m": []}}),
             ("query($j: In2 = {m: [{a: 1}]}) { r2(j: $j, i: {a: 1}) }", None)]
HOOK_KINDS = ["argument", "input", "field", "collection"]


class Rec:
    def __init__(self):
        self.calls = []
        self.returned = []
        self.snapshots = {}


REC = Rec()


async def rec_coercer(exception, error):
    REC.calls.append(error)
    REC.returned.append(error)
    return error


async def replacing_coercer(exception, error):
    REC.calls.append(error)
    new = {"message": "replaced", "n": len(REC.calls)}
    REC.returned.append(new)
    return new


async def suspending_coercer(exception, error):
    REC.calls.append(error)
    await asyncio.sleep(0)
    await asyncio.sleep(0)
    new = dict(error)
    new["extra"] = len(REC.calls)
    REC.returned.append(new)
    return new


async def annotating_coercer(exception, error):
    """the documented style: enrich the given dict in place (its `extensions` included) and return it"""
    REC.calls.append(error)
    error.setdefault("extensions", {})["seq"] = len(REC.calls)
    error["extensions"]["about"] = error.get("message")
    REC.returned.append(error)
    REC.snapshots[id(error)] = json.dumps(error, sort_keys=True, default=repr)
    return error


async def none_coercer(exception, error):
    REC.calls.append(error)
    REC.returned.append(None)
    return None


async def empty_coercer(exception, error):
    REC.calls.append(error)
    new = {}
    REC.returned.append(new)
    return new


def engine(kind):
    kw = {}
    if kind == "recording":
        kw["error_coercer"] = rec_coercer
    elif kind == "replacing":
        kw["error_coercer"] = replacing_coercer
    elif kind == "suspending":
        kw["error_coercer"] = suspending_coercer
    elif kind == "annotating":
        kw["error_coercer"] = annotating_coercer
    elif kind == "returning-none":
        kw["error_coercer"] = none_coercer
    elif kind == "returning-empty-dict":
        kw["error_coercer"] = empty_coercer
    # the three documented ways of building an engine, spread over the coercer kinds
    kw["route"] = {"recording": "create_engine", "replacing": "ctor", "suspending": "cook", "annotating": "ctor", "returning-none": "cook",
                   "returning-empty-dict": "create_engine"}.get(kind, "ctor")
    return explore.engine_for(("C18", kind), SCHEMA, directive_impl={"rej": RejDirective()}, **kw)


def shards(tier, seed):
    items = []
    L = MAXLEN[tier]
    # strings: partition by first two characters
    for a in range(len(ALPHABET)):
        items.append(("strings", a, L))
    for i in range(len(SEEDS)):
        items.append(("tokens", i))
    items.append(("bytes",))
    items.append(("opvars",))
    items.append(("fielderrors",))
    items.append(("hookerrors",))
    return items


def text_lines(q):
    b = q if isinstance(q, bytes) else q.encode("utf-8", "surrogateescape")
    b = b.split(b"\x00")[0]
    if b.startswith(b"\xef\xbb\xbf"):
        b = b[3:]
    return b.replace(b"\r\n", b"\n").replace(b"\r", b"\n").split(b"\n")


def check_envelope(q, resp, coercer, n_coerced, returned):
    """-> clause name or None"""
    if not isinstance(resp, dict) or "data" not in resp:
        return "not-a-dict-with-data"
    if set(resp) - {"data", "errors", "extensions"}:
        return "unexpected-top-level-key"
    if "errors" in resp:
        errs = resp["errors"]
        if not isinstance(errs, list) or not errs:
            return "errors-empty-or-not-list"
        if coercer == "default" or coercer == "recording":
            lines = text_lines(q)
            for e in errs:
                if not isinstance(e, dict) or not isinstance(e.get("message"), str):
                    return "error-message"
                if "path" not in e or not (e["path"] is None or isinstance(e["path"], list)):
                    return "error-path"
                locs = e.get("locations")
                if not isinstance(locs, list):
                    return "error-locations"
                for l in locs:
                    if not isinstance(l, dict) or set(l) != {"line", "column"}:
                        return "error-location-shape"
                    if not (isinstance(l["line"], int) and isinstance(l["column"], int) and l["line"] >= 1 and l["column"] >= 1):
                        return "error-location-not-positive"
                    if l["line"] > len(lines) or l["column"] > len(lines[l["line"] - 1]) + 1:
                        return "error-location-outside-text"
                if "extensions" in e and not (isinstance(e["extensions"], dict) and e["extensions"]):
                    return "error-extensions-empty"
                if set(e) - {"message", "path", "locations", "extensions"}:
                    return "error-extra-key"
            try:
                json.dumps(resp)
            except (TypeError, ValueError):
                return "not-json-serialisable"
        if coercer != "default":
            if n_coerced != len(errs):
                return "coercer-not-once-per-error"
            for e in errs:
                if not any(e is r for r in returned):
                    return "coercer-return-value-not-used"
                # ... and it still says what it said when the coercer returned it (entries must not share mutable parts)
                snap = REC.snapshots.get(id(e))
                if snap is not None and snap != json.dumps(e, sort_keys=True, default=repr):
                    return "coercer-return-value-changed-afterwards"
    elif coercer != "default" and n_coerced:
        return "coercer-called-without-errors"
    return None


def expectations(q, op_name):
    """what the model can say without executing: syntax error / failed operation selection => nothing runs"""
    data = q if isinstance(q, bytes) else q.encode("utf-8", "surrogateescape")
    data = data.split(b"\x00")[0]
    try:
        ast = gqlparse.parse_json_ast(data)
    except gqlparse.GQLSyntaxError:
        return "syntax"
    except RecursionError:
        return "syntax"
    try:
        d = doc.from_ast(ast)
    except RecursionError:
        return "unknown"
    if V.validate(SCHEMA, d):
        return "invalid"
    if X.get_operation(d, op_name or None) is None:
        return "opselect"
    return "runs"


def one(q, coercer, op_name, variables, out, tag, faults=None, reject=None):
    eng = engine(coercer)
    scn = Scenario(root=ROOT, faults=dict(faults or {}), fault_values={p: object() for p, k in (faults or {}).items() if k == "value"})
    scn.reject = reject
    del REC.calls[:]
    del REC.returned[:]
    REC.snapshots.clear()
    out["counts"]["evaluations"] += 1
    try:
        resp = harness.execute(eng, q, scn, operation_name=op_name, variables=variables)
    except BaseException as e:  # noqa
        clause = "execute-raised"
        resp = repr(e)
    else:
        clause = check_envelope(q, resp, coercer, len(REC.calls), list(REC.returned))
        if clause is None:
            exp = expectations(q, op_name)
            out["tables"]["classes"][exp] = out["tables"]["classes"].get(exp, 0) + 1
            if exp in ("syntax", "opselect"):  # refusing invalid documents is C07's business
                if resp["data"] is not None or not resp.get("errors"):
                    clause = exp + "-not-refused"
                elif scn.counters["resolver"]:
                    clause = exp + "-but-resolvers-ran"
            if exp == "runs" and isinstance(variables, (dict, type(None))) and resp.get("errors") and resp["data"] is None \
                    and any("syntax error" in str(e.get("message")) for e in resp["errors"] if isinstance(e, dict)):
                clause = "valid-text-reported-as-syntax-error"
    if clause:
        qq = q if isinstance(q, str) else repr(q)
        out["violations"].append({
            "signature": "%s|%s|%s" % (clause, tag, coercer),
            "summary": "%s for query=%r op=%r variables=%r coercer=%s: %r" % (clause, qq, op_name, variables, coercer, resp),
            "replay": {"query": q if isinstance(q, str) else None, "query_bytes_hex": q.hex() if isinstance(q, bytes) else None,
                       "op": op_name, "variables": variables, "coercer": coercer, "tag": tag,
                       "faults": [[list(p), k] for p, k in (faults or {}).items()], "reject": list(reject) if reject else None}})
    return resp


def _new_out():
    return {"counts": {"evaluations": 0, "inputs": 0}, "tables": {"classes": {}}, "sets": {"inputs": set(), "parsing": set()},
            "samples": [], "violations": [], "machinery": []}


def token_mutants(text):
    toks = gqlparse.tokenize(text.encode())[:-1]
    spans = []
    line_starts = [0]
    for i, ch in enumerate(text):
        if ch == "\n":
            line_starts.append(i + 1)
    for t in toks:
        s = line_starts[t.l0 - 1] + t.c0 - 1
        e = line_starts[t.l1 - 1] + t.c1 - 1
        spans.append((s, e))
    out = []
    for (s, e) in spans:
        out.append(text[:s] + text[e:])  # deletion
        out.append(text[:e] + " " + text[s:e] + text[e:])  # duplication
        for r in TOKENS:
            out.append(text[:s] + r + text[e:])  # replacement
    return out


def run_shard(item):
    out = _new_out()
    kind = item[0]
    inputs = []
    tag = kind
    if kind == "strings":
        a, L = item[1], item[2]
        first = ALPHABET[a]
        inputs.append(first)
        for n in range(1, L):
            for rest in itertools.product(ALPHABET, repeat=n):
                inputs.append(first + "".join(rest))
        if a == 0:
            inputs.append("")
        for q in inputs:
            for c in COERCERS:
                one(q, c, None, None, out, tag)
    elif kind == "tokens":
        seed = SEEDS[item[1]]
        inputs = [seed] + token_mutants(seed)
        for q in inputs:
            for c in COERCERS:
                for opn in (None, "A"):
                    one(q, c, opn, None, out, tag)
    elif kind == "bytes":
        inputs = [b"", b"{ a }", b"\xef\xbb\xbf{ a }", b"{ a }\x00{", b"\xff\xfe", b"{ b(x: 1) \xff }", b'{ b(x: "\xff") }',
                  "{ a # café\n }".encode(), "{ a # café\n b(x: \"s\") }".encode(), b"{ a }\r\n", b"{\ra\r}",
                  "{ é }", "﻿{ a }", "{ a } ", '{ b(x: "\\u00e9") }', '{ b(x: "\\ud800") }', "{ b(x: \"\"\"x\n\"\"\") }"]
        for depth in (50, 500, 5000):
            inputs.append("{ t " * depth + "{ a }" + " }" * depth)
            inputs.append("{ t " * depth)
            inputs.append("{ b(x: " + "[" * depth + "1" + "]" * depth + ") }")
        for q in inputs:
            for c in COERCERS:
                one(q, c, None, None, out, tag)
    elif kind == "opvars":
        docs = ["{ a }", "query A { a } query B { nn }", "query A($v: Int) { b(x: $v) }", "query A($v: Int!) { b(x: $v) }",
                "{ a } { nn }", "mutation A { a }", "{ a ", "query A { zzz }", "query A { zz1 a zz2 t { zz3 } }", "query A { a(q: 1) b(q: 2) }",
                "query A { a } query B { nn } query C { a nn }", "query A { a } query B { nn } query C { a nn } query D { nn }",
                "query A { a } query B { nn } query C { a } query D { nn } query E { a }", "query A { a } mutation B { a } query C { nn }", "query None { a }", "query None { a } query null { nn }"]
        inputs = docs
        for q in docs:
            # (... and names that look like a missing value once stringified by a transport: they are names like any other)
            for opn in (None, "", "A", "B", "Nope", "a", 0, 1, ("A",), b"A", 1.5, "None", "null", "undefined", "False"):
                for variables in (None, {}, {"v": 3}, {"v": "x"}, {"zz": 1}, [1], "str", 0, [["v", 1]]):
                    for c in COERCERS:
                        one(q, c, opn, variables, out, tag)
    elif kind == "hookerrors":
        # directive hooks (argument definition with an SDL default, input field default, field definition, query-side field
        # directive, collection) that refuse with a plain / library exception: the error must still be located inside the query text
        inputs = [d[0] for d in HOOK_DOCS]
        for q, variables in HOOK_DOCS:
            for hk in HOOK_KINDS:
                for exc in ("plain", "library"):
                    for c in COERCERS:
                        one(q, c, None, variables, out, tag + "|" + hk, reject=(hk, exc))
    elif kind == "fielderrors":
        # every single and every pair of resolver failures (plain / library exceptions, exception as value, null, unserialisable)
        # at the 8 field positions of one document, under the four error coercers
        q = FAULT_DOC
        inputs = [q]
        for n in (1, 2):
            for paths in itertools.combinations(FAULT_PATHS, n):
                for kinds in itertools.product(FAULT_KINDS, repeat=n):
                    for c in COERCERS:
                        one(q, c, None, None, out, tag + "|" + "+".join(sorted(set(kinds))), faults=dict(zip(paths, kinds)))
    out["counts"]["inputs"] = len(inputs)
    for q in inputs[:: max(1, len(inputs) // 3)][:3]:
        out["samples"].append({"query": q if isinstance(q, str) else repr(q), "shard": kind})
    out["sets"]["inputs"] = [explore.h64(q if isinstance(q, str) else q.decode("latin-1")) for q in inputs]
    out["sets"]["parsing"] = [explore.h64(q if isinstance(q, str) else q.decode("latin-1")) for q in inputs
                              if expectations(q, None) != "syntax"]
    return out


def finish(agg, tier):
    return {
        "states": len(agg.sets.get("inputs", ())),
        "transitions": agg.counts.get("evaluations", 0),
        "traces_validated_against_impl": agg.counts.get("evaluations", 0),
        "evaluations": agg.counts.get("evaluations", 0),
        "distinct_nontrivial": len(agg.sets.get("parsing", ())),
        "rule": "states = distinct query texts: all strings of length <= %d over %r, every single-token deletion/duplication/"
                "replacement (20 tokens) of %d seed documents, byte spellings, nesting depth 50/500/5000; transitions = executions "
                "(x 4 error coercers x operation names x variables objects). non-trivial = texts that are syntactically valid "
                "(reach validation / execution)" % (MAXLEN[tier], "".join(ALPHABET), len(SEEDS)),
        "exhaustive": True,
    }


def replay(rec):
    r = rec["replay"]
    q = r["query"] if r.get("query") is not None else bytes.fromhex(r["query_bytes_hex"])
    out = _new_out()
    one(q, r["coercer"], r["op"], r["variables"], out, r.get("tag", "replay"),
        faults={tuple(p): k for p, k in r.get("faults") or []}, reject=tuple(r["reject"]) if r.get("reject") else None)
    return out["violations"]
