"""C07 — documents breaking a supported validation rule are refused and nothing runs (DESIGN 4/C07).

Explicit-state: base documents (seeds, and every valid document within d rewrites) x catalogue X_r of violation
injecting rewrites applied at every applicable node; E5 labels each mutated document with the set of rules it breaks.
Oracle: data null, errors non-empty, and every harness counter is 0 (resolvers, type resolvers, directive hooks,
subscription sources).
"""
from vf import doc, explore, harness, rewrite, seeds, violations, schema as S
from vf.data import Scenario, build_root
from vf.model import coerce as C, execute as X, validate as V

PROPERTY = "C07"
LEVEL = "model_checking"
ASSUMPTIONS = ["E5's validator labels which rules a mutated document breaks (29 rules, June 2018)",
               "scalar parse_literal calls made by rule 5.6.1 are not counted as 'something ran' (DC14)"]
BUDGET_S = {"quick": 600, "thorough": 3000}
DEPTH = {"quick": 1, "thorough": 2}
D1_KINDS = {"quick": ("R4", "R5", "R10"), "thorough": None}

SUPPORTED = set(V.SUPPORTED) - {"5.6.2", "5.6.4"}


# input objects with required fields at several depths (argument, nested in a list, in a fragment, in a directive argument)
EXTRA_SEEDS = [
    "{ span(r: {from: 1, to: 2, tags: []}, rs: [{from: 1, to: 2, tags: [\"t\"]}]) num }",
    "{ ...SP } fragment SP on Query { span(rs: {from: 3, to: 4, tags: [\"u\"], step: 2}) color @dq(p: {a: 1}) }",
]


def all_seeds():
    return seeds.K_DOCS + seeds.K_MUTATIONS + seeds.K_SUBSCRIPTIONS + EXTRA_SEEDS


def shards(tier, seed):
    items = []
    n = 3 if tier == "quick" else 12
    for si in range(len(all_seeds())):
        for k in range(n):
            items.append((si, k, n, tier))
    return items


def op_choices(document):
    ops = document.operations
    if not ops:
        return [None]
    names = [o.name for o in ops]
    out = []
    for n in names:
        if n not in out:
            out.append(n)
    if None not in out and len(ops) == 1:
        out = [names[0]]
    return out


def default_vars(schema, document, op_name):
    op = None
    for o in document.operations:
        if o.name == op_name or (op_name is None and o.name is None):
            op = o
            break
    if op is None and document.operations:
        op = document.operations[0]
    if op is None:
        return None, None
    try:
        for a in explore.variable_assignments(schema, op):
            full = dict(a)
            for vd in op.vars:
                if vd.name not in full:
                    base = doc.named_of(doc.parse_type_str(vd.type))
                    val = {"Int": 1, "Float": 1.5, "String": "s", "Boolean": True, "ID": "i", "Tag": "t", "Color": "RED",
                           "P": {"a": 1}}.get(base, 1)
                    full[vd.name] = [val] if vd.type.startswith("[") else val
            return full, op
    except Exception:
        pass
    return None, op


def run_shard(item):
    si, k, n, tier = item
    schema = seeds.K
    engine = explore.engine_for("K", schema)
    out = {"counts": {"evaluations": 0, "mutated_documents": 0, "base_documents": 0, "not_violating": 0, "out_of_scope": 0,
                      "transitions": 0, "singleton": 0},
           "tables": {"rule_site_singleton": {}, "rule_any": {}, "rule_sets": {}}, "sets": {"docs": set(), "singleton_docs": set()},
           "samples": [], "violations": [], "machinery": []}
    seed_doc = doc.parse(all_seeds()[si])
    depth = DEPTH[tier]
    roots = {}
    kinds_by_level = {1: D1_KINDS[tier]} if D1_KINDS[tier] else None
    seen_texts = set()
    for base, level, trail, stats in explore.bfs(schema, seed_doc, depth, kinds_by_level, (k, n)):
        out["counts"]["base_documents"] += 1
        for rule, site, mutated in violations.inject(schema, base):
            out["counts"]["transitions"] += 1
            if mutated is None:
                continue
            try:
                text, _spans = doc.print_doc(mutated)
            except Exception as e:  # noqa
                out["machinery"].append("cannot print mutated document: %r" % (e,))
                continue
            if text in seen_texts:
                continue
            seen_texts.add(text)
            try:
                located = doc.parse(text)
            except Exception as e:  # noqa
                out["machinery"].append("mutated document does not parse (%s): %s" % (e, text))
                continue
            rules = V.validate(schema, located)
            if rule not in rules:
                out["counts"]["not_violating"] += 1
                continue
            in_scope = rules & SUPPORTED
            if not in_scope:
                out["counts"]["out_of_scope"] += 1
                continue
            out["counts"]["mutated_documents"] += 1
            h = explore.h64(text)
            out["sets"]["docs"].add(h)
            key = "%s|%s" % (rule, site.split("|")[0] if rule not in ("5.2.3.1",) else site)
            out["tables"]["rule_any"][rule] = out["tables"]["rule_any"].get(rule, 0) + 1
            if len(in_scope) == 1 and rules <= (in_scope | {"5.6.2", "5.6.4", "5.3.2"}):
                out["tables"]["rule_site_singleton"][key] = out["tables"]["rule_site_singleton"].get(key, 0) + 1
                out["sets"]["singleton_docs"].add(h)
            rs = "+".join(sorted(rules))
            out["tables"]["rule_sets"][rs] = out["tables"]["rule_sets"].get(rs, 0) + 1
            for opn in op_choices(located):
                variables, op = default_vars(schema, located, opn)
                kind = op.kind if op is not None else "query"
                rt = schema.root(kind) or schema.query
                if (rt, 1) not in roots:
                    roots[(rt, 1)] = build_root(schema, rt, 1)
                scn = Scenario(root=roots[(rt, 1)])
                scn.source_events = [build_root(schema, schema.subscription, 2)] if schema.subscription else []
                out["counts"]["evaluations"] += 1
                try:
                    if kind == "subscription":
                        resps = harness.subscribe_all(engine, text, scn, operation_name=opn, variables=variables, limit=5)
                    else:
                        resps = [harness.execute(engine, text, scn, operation_name=opn, variables=variables)]
                    clause = None
                except Exception as e:  # noqa
                    resps, clause = [repr(e)], "raised"
                if clause is None:
                    if not resps:
                        clause = "no-response"
                    for r in resps:
                        if not isinstance(r, dict) or r.get("data") is not None or not r.get("errors"):
                            clause = "not-refused"
                    ran = {c: v for c, v in scn.counters.items() if v and c != "scalar"}
                    if ran:
                        clause = (clause or "refused") + "-but-ran:" + "+".join(sorted(ran))
                if clause:
                    sig_rules = "+".join(sorted(in_scope))
                    out["violations"].append({
                        "signature": "accepted|%s|%s" % (sig_rules, _site_sig(rule, site)),
                        "summary": "%s: rules %s (target %s at %s): %s op=%r -> %r counters=%r" % (
                            clause, sorted(rules), rule, site, text, opn, resps[:1], scn.counters),
                        "replay": {"text": text, "op": opn, "variables": variables, "rule": rule, "site": site}})
                    break
            if len(out["samples"]) < 2 and level == 0 and rule in ("5.5.2.3", "5.8.5"):
                out["samples"].append({"rule": rule, "site": site, "document": text, "violated": sorted(rules)})
    out["sets"] = {kk: list(vv) for kk, vv in out["sets"].items()}
    return out


def _site_sig(rule, site):
    """finding signatures name the call site class, never a concrete document (DESIGN 5)"""
    parts = site.split("|")
    if rule == "5.2.3.1":
        return parts[-1]
    if rule == "5.6.1":
        if parts[0].startswith("variable-default"):
            return "variable-default"
        return parts[0] + "|" + parts[-1]
    if rule in ("5.8.5", "5.8.3", "5.6.3"):
        if parts[0].startswith("variable-default"):
            return "variable-default"
        owner = parts[0].split("-")[0]
        return owner + ("-argument" if parts[0].endswith("-argument") else "-nested-value")
    if rule == "5.4.1" and "typename-on-abstract" in site:
        return "typename-on-abstract"
    return parts[0]


def finish(agg, tier):
    c = agg.counts
    singles = agg.tables.get("rule_site_singleton", {})
    rules_any = agg.tables.get("rule_any", {})
    missing = sorted(r for r in SUPPORTED if r not in rules_any)
    return {
        "states": len(agg.sets.get("docs", ())),
        "transitions": c.get("transitions", 0),
        "traces_validated_against_impl": c.get("evaluations", 0),
        "evaluations": c.get("evaluations", 0),
        "distinct_nontrivial": len(agg.sets.get("singleton_docs", ())),
        "rule": "states = distinct mutated documents that E5 certifies to violate the targeted rule (and at least one of the 26 "
                "documented rules); transitions = violation rewrites applied (catalogue X_r at every applicable node of every base "
                "document: %d seeds and every valid document within %d rewrite(s)); non-trivial = mutated documents whose violated "
                "set is exactly one supported rule (so that disabling that rule alone would let them through). Each is run for "
                "every operation name with well-typed variables; refusal and zero resolver/type-resolver/hook/source calls are "
                "required" % (len(all_seeds()), DEPTH[tier]),
        "rules_without_any_violating_document": missing,
        "rule_site_pairs_with_singleton_documents": len(singles),
        "exhaustive": True,
    }


def replay(rec):
    r = rec["replay"]
    schema = seeds.K
    engine = harness.build_engine(schema)
    located = doc.parse(r["text"])
    op = None
    for o in located.operations:
        if o.name == r["op"]:
            op = o
    kind = op.kind if op else (located.operations[0].kind if located.operations else "query")
    rt = schema.root(kind) or schema.query
    scn = Scenario(root=build_root(schema, rt, 1))
    scn.source_events = [build_root(schema, schema.subscription, 2)]
    if kind == "subscription":
        resps = harness.subscribe_all(engine, r["text"], scn, operation_name=r["op"], variables=r["variables"], limit=5)
    else:
        resps = [harness.execute(engine, r["text"], scn, operation_name=r["op"], variables=r["variables"])]
    bad = [x for x in resps if not isinstance(x, dict) or x.get("data") is not None or not x.get("errors")]
    ran = {c: v for c, v in scn.counters.items() if v and c != "scalar"}
    if bad or ran or not resps:
        return [{"summary": "responses %r counters %r" % (resps[:2], scn.counters)}]
    return []
