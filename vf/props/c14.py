"""C14 — subscriptions answer every source event once, in order (DESIGN 4/C14, engines E3 + E4).

Subscription documents x ALL event sequences up to length L over {well-formed, nullable-field error, non-null error,
None} x all schedules of the source's production points and the resolvers' suspension points; invalid documents and
failing variable coercion.  Oracle: yielded responses = [E5 execute(selection, root = event_i)] in order, one each; the
stream ends exactly when the source ends; refused requests yield one errors-only response and never start the source.
"""
import asyncio
import itertools
import json

from vf import doc, explore, harness, sched, seeds
from vf.data import Scenario, build_root, lookup
from vf.model import coerce as C, execute as X
from vf.props import c02
from vf.props.c02 import Bad

PROPERTY = "C14"
LEVEL = "model_checking"
ASSUMPTIONS = ["one consumer per stream; argument-coercion failures while creating the source are out of scope (DC9)",
               "a subscription whose only root field is skipped at run time is outside the statement (observed: subscribe raises IndexError)"]
BUDGET_S = {"quick": 600, "thorough": 3600}
MAXLEN = {"quick": 3, "thorough": 4}
MAX_I = {"quick": 1, "thorough": 1}

DOCS = [
    ("plain", "subscription { tick { id a } }", None),
    ("alias", "subscription S { t: tick { id x: a name } }", None),
    ("fragment", "subscription S { tick { ...TF } } fragment TF on A { id a ... on Node { name } }", None),
    ("literal-argument", "subscription S { tick(n: 3) { id } }", None),
    ("variable-argument", "subscription S($n: Int = 2) { t: tick(n: $n) { id a } }", {"n": 5}),
    ("variable-default", "subscription S($n: Int = 2) { t: tick(n: $n) { id a } }", {}),
    ("scalar-root", "subscription S { count }", None),
    ("non-null-root", "subscription S { strict }", None),
    ("live-object-source", "subscription S { tick { id a name } }", None),
    ("three-fragment-levels", "subscription S { ...F1 } fragment F1 on Subscription { ...F2 } fragment F2 on Subscription { ... on Subscription { tick { id a } } }", None),
    ("four-named-fragments", "subscription S($n: Int = 2) { ...G1 } fragment G1 on Subscription { ...G2 } fragment G2 on Subscription { ...G3 } "
                             "fragment G3 on Subscription { ...G4 } fragment G4 on Subscription { t: tick(n: $n) { id } }", {}),
]
DOCS += [
    # several operations in the request document: the one selected by operationName is what every event is executed with
    ("selected-among-three-operations", "query Q { num } subscription S { tick { id a } } subscription T { count }", None),
    ("selected-last-with-variables", "subscription T($n: Int = 9) { tick(n: $n) { id } } subscription S($n: Int = 2) { t: tick(n: $n) { id a } }", {"n": 4}),
]
REFUSED = [
    ("unknown-field", "subscription { tick { zz } }", None),
    ("two-roots", "subscription { tick { id } count }", None),
    ("syntax", "subscription { tick { id }", None),
    ("bad-variable", "subscription S($n: Int!) { tick(n: $n) { id } }", {"n": "x"}),
    ("missing-variable", "subscription S($n: Int!) { tick(n: $n) { id } }", {}),
    ("unknown-operation", "subscription S { tick { id } } subscription T { count }", None),
]
ALPHABET = ["W", "E1", "E2", "N"]


def payload(kind, i, schema):
    if kind == "N":
        return None
    a = build_root(schema, "A", 10 + i, depth=2)
    a["id"] = "ev%d" % i
    a["a"] = i
    if kind == "E1":
        a["a"] = Bad()
    if kind == "E2":
        a["id"] = None
    return {"tick": a, "count": i if kind != "E1" else Bad(), "strict": None if kind == "E2" else Bad() if kind == "E1" else i}


def shards(tier, seed):
    L = MAXLEN[tier]
    items = []
    for di in range(len(DOCS)):
        for first in ALPHABET + [""]:
            items.append(("seq", di, first, L))
    items.append(("refused", tier))
    items.append(("custom-default-resolver", tier))
    items.append(("falsy-events", tier))
    if tier == "thorough":
        items.append(("two-streams", tier))
    return items


def consume(engine, text, op, variables, scn):
    async def go():
        out = []
        async for r in engine.subscribe(text, operation_name=op, context=scn, variables=variables, initial_value=None):
            out.append(r)
            scn.events.append(("consumed", len(out)))
        return out
    return go()


def judge_stream(schema, located, op, variables, scn, events, responses):
    if len(responses) != len(events):
        return "response-count-%d-for-%d-events" % (len(responses), len(events))
    for i, (ev, resp) in enumerate(zip(events, responses)):
        exp = X.execute_request(schema, located, op, variables, Scenario(root=ev), root=ev if ev is not None else _NONE_ROOT)
        clause = c02.judge(exp, resp, {})
        if clause:
            return "event-%s:%s" % ("response", clause)
    return None


def the_op(located):
    """the operation a document of DOCS is run with: the one named S when the document holds several"""
    if len(located.operations) > 1:
        return [o for o in located.operations if o.name == "S"][0]
    return located.operations[0]


def root_field_node(schema, located, variables):
    """the (single) root field node of the subscription, wherever the document puts it (fragments, inline fragments)"""
    vals, _ = C.coerce_variables(schema, the_op(located), variables)
    ex = X.Executor(schema, located, Scenario(root=None))
    ex.vars = vals
    groups = ex.collect(schema.subscription, the_op(located).sel, {}, set())
    return list(groups.values())[0][0]


class FalsyBox:
    """a payload object carrying the event's fields as attributes whose truth value is False"""

    def __init__(self, d):
        self.__dict__.update(d)

    def __bool__(self):
        return False


class ZeroLen(FalsyBox):
    def __bool__(self):  # truth value through __len__
        return len(self) != 0

    def __len__(self):
        return 0


class _NoneRoot:
    """E5 treats root=None as 'use scn.root'; a None payload is modelled by an object without attributes"""


_NONE_ROOT = _NoneRoot()


def run_shard(item):
    schema = seeds.K
    engine = explore.engine_for("K", schema)
    out = {"counts": {"schedules": 0, "choice_points": 0, "sequences": 0, "responses_compared": 0, "nontrivial": 0},
           "tables": {"lengths": {}}, "sets": {}, "samples": [], "violations": [], "machinery": [], "caps": []}
    loop = sched.VLoop()
    if item[0] == "seq":
        _, di, first, L = item
        label, text, variables = DOCS[di]
        text, located = doc.roundtrip(doc.parse(text))
        op = the_op(located).name
        seqs = [()] if first == "" else [(first,) + rest for n in range(0, L) for rest in itertools.product(ALPHABET, repeat=n)]
        for seq in seqs:
            events = [payload(k, i, schema) for i, k in enumerate(seq)]
            scn = Scenario(root=None)
            state = {"viol": None, "nontrivial": 0}

            def make_task(s):
                scn.reset()
                scn.source_events = events
                scn.live_object = label.startswith("live-object")
                scn.sched = s
                harness.CURRENT[0] = scn
                return consume(engine, text, op, variables, scn)

            def on(ex):
                if any(ex.choices):
                    state["nontrivial"] += 1
                clause = None
                if ex.status != "ok":
                    clause = ex.status + (":" + repr(ex.exception) if ex.exception else "")
                else:
                    clause = judge_stream(schema, located, op, variables, scn, events, ex.result)
                    if clause is None:
                        evs = scn.events
                        # exactly one source start, with the spec-coerced arguments; it ended; order of yields/consumption
                        starts = [e for e in evs if e[0] == "source-start"]
                        if len(starts) != 1:
                            clause = "source-started-%d-times" % len(starts)
                        else:
                            fnode = root_field_node(schema, located, variables)
                            vals, bad = C.coerce_variables(schema, the_op(located), variables)
                            want = C.freeze(C.coerce_arguments(schema, schema.field_def("Subscription", fnode.name).args, fnode.args, vals))
                            if starts[0][2] != want:
                                clause = "source-arguments-differ"
                        ys = [e[1] for e in evs if e[0] == "source-yield"]
                        cs = [e[1] for e in evs if e[0] == "consumed"]
                        if clause is None and (ys != list(range(len(events))) or cs != list(range(1, len(events) + 1))):
                            clause = "events-not-answered-in-order"
                        if clause is None and not any(e[0] == "source-end" for e in evs):
                            clause = "stream-ended-before-source"
                        if clause is None and (ex.pending_at_end or ex.leftover_tasks):
                            clause = "pending-work-after-stream-end"
                if clause and state["viol"] is None:
                    state["viol"] = (clause, list(ex.choices), ex.result)

            st = sched.explore(loop, make_task, on, max_i=MAX_I["quick"], max_executions=20000)
            out["counts"]["schedules"] += st["executions"]
            out["counts"]["choice_points"] += st["choice_points"]
            out["counts"]["sequences"] += 1
            out["counts"]["responses_compared"] += st["executions"] * len(seq)
            out["counts"]["nontrivial"] += state["nontrivial"]
            out["tables"]["lengths"][str(len(seq))] = out["tables"]["lengths"].get(str(len(seq)), 0) + 1
            if st["capped"]:
                out["caps"].append("schedule cap for %s %r" % (label, seq))
            if state["viol"]:
                clause, choices, got = state["viol"]
                out["violations"].append({
                    "signature": "%s|%s" % (clause.split(":")[0] if not clause.startswith("event-") else clause, label),
                    "summary": "%s: %s variables=%r events=%r schedule=%r -> %r" % (clause, text, variables, seq, choices, got),
                    "replay": {"doc": di, "seq": list(seq), "choices": choices}})
        if first == "W":
            out["samples"].append({"document": text, "event_sequences": ["".join(s) or "(empty)" for s in seqs[:6]], "count": len(seqs)})
    elif item[0] == "falsy-events":
        # events that are falsy in Python but are perfectly good root values: an object whose __bool__ is False / __len__ is 0 (an empty
        # container type carrying attributes); each must be answered from *that* object
        for label, text, variables in DOCS:
            text, located = doc.roundtrip(doc.parse(text))
            op = the_op(located).name
            for seq in (("F",), ("W", "F"), ("F", "W", "Z"), ("Z", "Z"), ("F", "N", "W")):
                plain = [payload("W" if k in ("F", "Z") else k, i, schema) for i, k in enumerate(seq)]
                events = [FalsyBox(ev) if k == "F" else ZeroLen(ev) if k == "Z" else ev for k, ev in zip(seq, plain)]
                scn = Scenario(root=None)
                scn.source_events = events
                try:
                    resps = harness.subscribe_all(engine, text, scn, operation_name=op, variables=variables, limit=10)
                    clause = judge_stream(schema, located, op, variables, scn, plain, resps)
                except Exception as e:  # noqa
                    resps, clause = [repr(e)], "subscribe-raised"
                out["counts"]["sequences"] += 1
                out["counts"]["schedules"] += 1
                out["counts"]["responses_compared"] += len(seq)
                if clause:
                    out["violations"].append({"signature": "%s|falsy-event-object|%s" % (clause, label),
                                              "summary": "%s: %s events=%r (F / Z = objects with __bool__ False / __len__ 0) -> %r" % (clause, text, seq, resps),
                                              "replay": {"falsy_events": label}})
        out["samples"].append({"falsy_event_objects": "payload objects whose truth value is False"})
    elif item[0] == "custom-default-resolver":
        # the subscription root field has a source but no @Resolver: each event is answered through the engine's
        # custom_default_resolver (here: it prefers the key "cdr_<field>" of the payload), like any other field without resolver
        async def cdr(parent, args, ctx, info):
            if isinstance(parent, dict) and ("cdr_" + info.field_name) in parent:
                return parent["cdr_" + info.field_name]
            return lookup(parent, info.field_name)

        fqs = {"%s.%s" % (td.name, f.name) for td in schema.types if td.kind == "OBJECT" for f in td.fields} - {"Subscription.tick", "Subscription.count", "Subscription.strict", "A.name"}
        eng2 = explore.engine_for("K-c14-cdr", schema, resolvers=fqs, custom_default_resolver=cdr)
        for label, text, variables in DOCS:
            text, located = doc.roundtrip(doc.parse(text))
            op = the_op(located).name
            for seq in (("W",), ("W", "W"), ("W", "E2", "W"), ("N", "W")):
                seen_by_model = [payload(k, i, schema) for i, k in enumerate(seq)]
                events = []
                for i, ev in enumerate(seen_by_model):
                    if ev is None:
                        events.append(None)
                        continue
                    decoy = payload("W", 50 + i, schema)
                    real = dict(ev)
                    raw = {"tick": decoy["tick"], "count": 1000 + i, "strict": 2000 + i, "cdr_tick": real["tick"], "cdr_count": real["count"],
                           "cdr_strict": real["strict"]}
                    if isinstance(real["tick"], dict):
                        a = dict(real["tick"])
                        a["cdr_name"] = a.get("name")
                        a["name"] = "decoy"
                        raw["cdr_tick"] = a
                    events.append(raw)
                scn = Scenario(root=None)
                scn.source_events = events
                try:
                    resps = harness.subscribe_all(eng2, text, scn, operation_name=op, variables=variables, limit=10)
                    clause = judge_stream(schema, located, op, variables, scn, seen_by_model, resps)
                except Exception as e:  # noqa
                    resps, clause = [repr(e)], "subscribe-raised"
                out["counts"]["sequences"] += 1
                out["counts"]["schedules"] += 1
                out["counts"]["responses_compared"] += len(seq)
                if clause:
                    out["violations"].append({"signature": "%s|custom-default-resolver|%s" % (clause, label),
                                              "summary": "%s: %s events=%r (engine with custom_default_resolver, root field without @Resolver) -> %r"
                                                         % (clause, text, seq, resps),
                                              "replay": {"custom_default_resolver": label}})
        out["samples"].append({"custom_default_resolver": "root field without @Resolver, payload keys cdr_<field> preferred"})
    elif item[0] == "refused":
        for label, text, variables in REFUSED:
            scn = Scenario(root=None)
            scn.source_events = [payload("W", 0, schema)]
            opn = "Nope" if label == "unknown-operation" else None
            try:
                resps = harness.subscribe_all(engine, text, scn, operation_name=opn, variables=variables, limit=5)
                clause = None
            except Exception as e:  # noqa
                resps, clause = [repr(e)], "subscribe-raised"
            out["counts"]["sequences"] += 1
            out["counts"]["schedules"] += 1
            if clause is None:
                if len(resps) != 1:
                    clause = "refused-request-yielded-%d-responses" % len(resps)
                elif resps[0].get("data") is not None or not resps[0].get("errors"):
                    clause = "refused-request-not-errors-only"
                elif scn.counters["source"] or scn.counters["resolver"]:
                    clause = "source-started-for-refused-request"
            if clause:
                out["violations"].append({"signature": "%s|%s" % (clause, label),
                                          "summary": "%s: %s variables=%r -> %r counters=%r" % (clause, text, variables, resps, scn.counters),
                                          "replay": {"refused": label}})
        # every way the X_r catalogue knows of giving a subscription more than one root field (directly, through inline / named /
        # nested fragments, aliased twins), for each document: one errors-only response, the source never starts
        from vf import doc as _doc, violations as _viol
        from vf.model import validate as _V
        for dlabel, dtext, dvars in DOCS:
            base = _doc.parse(dtext)
            for rule, site, d2 in _viol.inject(schema, base):
                if rule != "5.2.3.1":
                    continue
                try:
                    text, located = _doc.roundtrip(d2)
                except Exception:  # noqa
                    continue
                if "5.2.3.1" not in _V.validate(schema, located):
                    continue
                scn = Scenario(root=None)
                scn.source_events = [payload("W", 0, schema), payload("W", 1, schema)]
                opn = located.operations[0].name if "non-first" not in site else [o.name for o in located.operations][-1]
                try:
                    resps = harness.subscribe_all(engine, text, scn, operation_name=opn, variables=dvars, limit=5)
                    clause = None
                except Exception as e:  # noqa
                    resps, clause = [repr(e)], "subscribe-raised"
                out["counts"]["sequences"] += 1
                out["counts"]["schedules"] += 1
                if clause is None:
                    if len(resps) != 1:
                        clause = "refused-request-yielded-%d-responses" % len(resps)
                    elif resps[0].get("data") is not None or not resps[0].get("errors"):
                        clause = "refused-request-not-errors-only"
                    elif scn.counters["source"] or scn.counters["resolver"]:
                        clause = "source-started-for-refused-request"
                if clause:
                    out["violations"].append({"signature": "%s|several-root-fields|%s" % (clause, site.split("|")[0]),
                                              "summary": "%s: %s -> %r counters=%r" % (clause, text, resps, scn.counters),
                                              "replay": {"refused": "several-root-fields"}})
        out["samples"].append({"refused_requests": [r[0] for r in REFUSED] + ["several root fields: every 5.2.3.1 variant of every document"]})
    else:
        # two concurrent streams on one engine: every interleaving; each stream = its solo behaviour
        label, text, variables = DOCS[1]
        text, located = doc.roundtrip(doc.parse(text))
        op = the_op(located).name
        for sa in itertools.product(ALPHABET, repeat=2):
            for sb in itertools.product(ALPHABET[:2], repeat=2):
                ea = [payload(k, i, schema) for i, k in enumerate(sa)]
                eb = [payload(k, 5 + i, schema) for i, k in enumerate(sb)]
                sca, scb = Scenario(root=None), Scenario(root=None)
                state = {"viol": None}

                def make_task(s):
                    for scn, evs in ((sca, ea), (scb, eb)):
                        scn.reset()
                        scn.source_events = evs
                        scn.sched = s

                    async def both():
                        return await asyncio.gather(consume(engine, text, op, variables, sca), consume(engine, text, op, variables, scb))
                    return both()

                def on(ex):
                    if ex.status != "ok":
                        clause = ex.status
                    else:
                        clause = judge_stream(schema, located, op, variables, sca, ea, ex.result[0]) or \
                            judge_stream(schema, located, op, variables, scb, eb, ex.result[1])
                    if clause and state["viol"] is None:
                        state["viol"] = (clause, list(ex.choices))

                st = sched.explore(loop, make_task, on, max_i=0, max_executions=20000)
                out["counts"]["schedules"] += st["executions"]
                out["counts"]["choice_points"] += st["choice_points"]
                out["counts"]["sequences"] += 1
                if state["viol"]:
                    out["violations"].append({"signature": "%s|two-streams" % state["viol"][0], "summary": "two streams %r %r: %r" % (sa, sb, state["viol"]),
                                              "replay": {"two": [list(sa), list(sb)]}})
    return out


def finish(agg, tier):
    c = agg.counts
    return {
        "states": c.get("schedules", 0),
        "transitions": c.get("choice_points", 0) + c.get("responses_compared", 0),
        "traces_validated_against_impl": c.get("responses_compared", 0),
        "evaluations": c.get("schedules", 0),
        "distinct_nontrivial": c.get("nontrivial", 0),
        "rule": "states = complete schedules of (document, event sequence): %d subscription documents x ALL event sequences of length <= %d "
                "over {well-formed, nullable-field error, non-null error, None} (%d sequences each) x all orders of the source's production "
                "points and the resolvers' suspension points (+ <= 1 mid-run injection); plus %d refused requests%s. non-trivial = "
                "schedules deviating from FIFO. Every yielded response is compared with E5 executing the selection against that event"
                % (len(DOCS), MAXLEN[tier], sum(4 ** n for n in range(MAXLEN[tier] + 1)), len(REFUSED),
                   " and two concurrent streams" if tier == "thorough" else ""),
        "exhaustive": True,
    }


def replay(rec):
    r = rec["replay"]
    if "falsy_events" in r:
        return run_shard(("falsy-events", "quick"))["violations"]
    if "custom_default_resolver" in r:
        return run_shard(("custom-default-resolver", "quick"))["violations"]
    if "refused" in r:
        return run_shard(("refused", "quick"))["violations"]
    if "two" in r:
        return run_shard(("two-streams", "thorough"))["violations"]
    seq = r["seq"]
    return [v for v in run_shard(("seq", r["doc"], seq[0] if seq else "", max(1, len(seq))))["violations"]]
