"""C01 — request results equal the GraphQL execution algorithm's result (DESIGN 4/C01).

Explicit-state BFS over documents within d rewrites of the seeds (catalogue V), each state executed on the real engine
for every variable assignment / data tree / operation name and compared with E5 (ordered data + resolver-call multiset).
Further shards: abstract-type resolution configurations, default resolver, request envelope.
"""
import itertools

from vf import doc, explore, harness, rewrite, seeds, schema as S
from vf.data import Scenario, build_root, Obj
from vf.model import coerce as C, execute as X, validate as V

PROPERTY = "C01"
LEVEL = "model_checking"
ASSUMPTIONS = [
    "parser stand-in honours libgraphqlparser's JSON contract (DESIGN 2.1)",
    "reference model E5 (vf/model) is a faithful reading of June-2018 section 6",
    "documents within d rewrites of the seeds over schema K; data trees from vf.data.TreeBuilder variants",
]
BUDGET_S = {"quick": 600, "thorough": 3000}

DEPTH = {"quick": 2, "thorough": 3}
SLICES = {"quick": 8, "thorough": 32}
VARIANTS = {"quick": (0, 100, 1), "thorough": (0, 1, 2, 3, 100, 101)}
RESTRICTED = ("R3", "R5", "R6", "R8")
LEVEL2_QUICK = ("R3", "R5", "R6", "R8L", "R2L", "R4")  # quick tier: the second rewrite is a feature-interaction kind


def shards(tier, seed):
    items = []
    n = SLICES[tier]
    for si in range(len(seeds.K_DOCS) + len(seeds.K_MUTATIONS)):
        for k in range(n):
            items.append(("sel", si, k, n, tier))
    for cfg in range(16):
        items.append(("types", cfg, tier))
    for si in range(len(seeds.K_DOCS) + len(seeds.K_MUTATIONS)):
        items.append(("mixed", si, tier))
    items.append(("default_resolver", tier))
    items.append(("envelope", tier))
    return items


def _seed_text(si):
    allseeds = seeds.K_DOCS + seeds.K_MUTATIONS
    return allseeds[si]


def _violation(kind_sig, summary, replay):
    return {"signature": kind_sig, "summary": summary, "replay": replay}


def run_cases(schema, engine, document, trail, variants, out, cfg=None, roots=None, resolvers="all", typecfg=None):
    """execute one state under every op name x assignment x data variant"""
    text, located = doc.roundtrip(document, pretty=(len(trail) % 2 == 1))
    ops = located.operations
    names = [o.name for o in ops] if len(ops) > 1 else [ops[0].name if ops[0].name else None]
    for opn in names:
        op = X.get_operation(located, opn)
        for variables in explore.variable_assignments(schema, op):
            for variant in variants:
                root_type = schema.root(op.kind)
                key = (root_type, variant)
                if key not in roots:
                    roots[key] = build_root(schema, root_type, variant)
                scn = Scenario(root=roots[key], resolvers=resolvers, typecfg=typecfg or {})
                ok, info = explore.compare_case(schema, located, text, engine, scn, opn, variables or None)
                out["counts"]["evaluations"] += 1
                if ok:
                    exp = info["exp"]
                    out["counts"]["calls_compared"] += len(exp.calls)
                    if exp.failures:
                        out["counts"]["cases_with_field_errors"] += 1
                else:
                    sig = "%s|%s" % (info["clause"], "+".join(sorted(trail)) or "seed")
                    out["violations"].append(_violation(sig, "%s on %s op=%s vars=%s variant=%s: expected %r got %r" % (
                        info["clause"], text, opn, variables, variant, info.get("expected_data"),
                        (info.get("response") or {})), {
                        "kind": "sel", "sdl": "K", "text": text, "op": opn, "variables": variables,
                        "variant": variant, "resolvers": resolvers if resolvers == "all" else sorted(resolvers),
                        "typecfg": _cfg_json(typecfg), "trail": list(trail)}))
    return text


def _cfg_json(typecfg):
    if not typecfg:
        return {}
    return {k: (sorted(v) if isinstance(v, (set, frozenset, tuple, list)) else v) for k, v in typecfg.items()}


def _new_out():
    return {"counts": {"evaluations": 0, "calls_compared": 0, "cases_with_field_errors": 0, "states": 0,
                       "transitions": 0, "discarded_invalid": 0, "nontrivial_states": 0},
            "tables": {"rewrite_kinds": {}, "rewrite_kinds_discarded": {}}, "sets": {"state_hashes": set(), "nontrivial_hashes": set()},
            "samples": [], "violations": [], "machinery": []}


def run_shard(item):
    out = _new_out()
    kind = item[0]
    try:
        if kind == "sel":
            _shard_sel(item, out)
        elif kind == "types":
            _shard_types(item, out)
        elif kind == "mixed":
            _shard_mixed(item, out)
        elif kind == "default_resolver":
            _shard_default_resolver(item, out)
        elif kind == "envelope":
            _shard_envelope(item, out)
    except doc.MachineryError as e:
        out["machinery"].append(str(e)[:500])
    out["sets"] = {k: list(v) for k, v in out["sets"].items()}
    return out


def _shard_sel(item, out):
    _, si, k, n, tier = item
    schema = seeds.K
    engine = explore.engine_for("K", schema)
    seed_doc = doc.parse(_seed_text(si))
    depth = DEPTH[tier]
    kinds_by_level = {2: LEVEL2_QUICK} if tier == "quick" else None
    roots = {}
    stats = None
    for d, level, trail, stats in explore.bfs(schema, seed_doc, depth, kinds_by_level, (k, n)):
        variants = VARIANTS[tier] if (level < 2 or tier != "quick") else VARIANTS[tier][-1:]
        text = run_cases(schema, engine, d, trail, variants, out, roots=roots)
        out["counts"]["states"] += 1
        out["sets"]["state_hashes"].add(explore.h64(text))
        if level >= 2 and len(set(trail)) >= 2:
            out["sets"]["nontrivial_hashes"].add(explore.h64(text))
        if len(out["samples"]) < 2 and level == depth:
            out["samples"].append({"document": text, "rewrites": list(trail)})
    if stats:
        out["counts"]["transitions"] += stats["transitions"]
        out["counts"]["discarded_invalid"] += stats["discarded_invalid"]
        for kk, vv in stats["kinds"].items():
            out["tables"]["rewrite_kinds"][kk] = vv
        for kk, vv in stats["kinds_discarded"].items():
            out["tables"]["rewrite_kinds_discarded"][kk] = vv


def _shard_mixed(item, out):
    """the same documents (d <= 1) on an engine whose fields alternate between sequential and concurrent sibling / list coercion"""
    _, si, tier = item
    schema = seeds.K
    per = {}
    n = 0
    for td in schema.types:
        if td.kind == "OBJECT":
            for f in td.fields:
                n += 1
                per["%s.%s" % (td.name, f.name)] = {"parent_concurrently": n % 2 == 0, "list_concurrently": n % 3 != 0}
    # ... built from the schema written with `extend` blocks, through Engine() + cook()
    engine = explore.engine_for("K-mixed", schema, typecfg={"resolver_kwargs": per}, layout="extend", route="cook")
    roots = {}
    for d, level, trail, stats in explore.bfs(schema, doc.parse(_seed_text(si)), 1):
        text = run_cases(schema, engine, d, trail + ("mixed-concurrency",), VARIANTS[tier][:1], out, roots=roots)
        out["counts"]["states"] += 1
        out["sets"]["state_hashes"].add(explore.h64("mixed" + text))
        out["sets"]["nontrivial_hashes"].add(explore.h64("mixed" + text))


TYPE_DOCS = [
    "{ node { __typename id ... on A { a } ... on B { b } } }",
    "{ nodes { __typename id ... on A { a } ... on B { b strict } } }",
    "{ pet { __typename ... on A { a id } ... on C { c id } } pets { __typename ... on A { a } ... on C { c } } }",
    "{ c { node { __typename id } } a { peer { __typename id } pets { __typename } } }",
]


def _shard_types(item, out):
    """all 2^4 presence combinations of {field-level on Query.node, field-level on Query.pets, @TypeResolver(Node),
    engine default}; the built-in default is what remains"""
    _, cfg, tier = item
    schema = seeds.K
    fields = set()
    if cfg & 1:
        fields.add("Query.node")
    if cfg & 2:
        fields.add("Query.pets")
    typecfg = {"field": fields, "type": {"Node"} if cfg & 4 else set(), "engine": bool(cfg & 8)}
    engine = explore.engine_for(("K-types", cfg), schema, typecfg=typecfg)
    roots = {}
    for style in ("dict", "attr"):
        for variant in VARIANTS[tier]:
            roots[("Query", variant)] = build_root(schema, "Query", variant, style=style)
        for t in TYPE_DOCS:
            d = doc.parse(t)
            text = run_cases(schema, engine, d, ("types-cfg%d-%s" % (cfg, style),), VARIANTS[tier], out, roots=roots,
                             typecfg=typecfg)
            out["counts"]["states"] += 1
            out["sets"]["state_hashes"].add(explore.h64("types%d%s%s" % (cfg, style, text)))
            out["sets"]["nontrivial_hashes"].add(explore.h64("types%d%s%s" % (cfg, style, text)))
    out["samples"].append({"type_resolver_config": _cfg_json(typecfg), "documents": TYPE_DOCS[:1]})


class _FalsyObj:
    c = "RED"
    name = "falsy but not null"

    def __bool__(self):
        return False


class _ClsA:
    """runtime type named by its class name (third naming way)"""


def _shard_default_resolver(item, out):
    """fields without resolver read the same-named key or attribute of the parent"""
    schema = seeds.K
    engine = explore.engine_for("K-noresolvers", schema, resolvers=set())
    docs = ["{ num color a { id name a echo } }", "{ b { id tags strict } c { id c name } ints matrix }",
            "{ a { peer { id name } } hello }"]
    for style in ("dict", "attr", "proxy", "userdict", "getitem"):
        for variant in (0, 1, 2, 3):
            root = build_root(schema, "Query", variant, style=style)
            # (the mapping styles: documents without abstract types -- how a runtime type is named is not what is varied here)
            for t in (docs if style in ("dict", "attr") else docs[:2]):
                d = doc.parse(t)
                text, located = doc.roundtrip(d)
                scn = Scenario(root=root, resolvers=set())
                ok, info = explore.compare_case(schema, located, text, engine, scn, None, None)
                out["counts"]["evaluations"] += 1
                out["counts"]["states"] += 1
                out["sets"]["state_hashes"].add(explore.h64("dr%s%d%s" % (style, variant, text)))
                if not ok:
                    out["violations"].append(_violation("%s|default-resolver-%s" % (info["clause"], style),
                                                        "%s on %s: expected %r got %r" % (info["clause"], text, info.get("expected_data"), info.get("response")),
                                                        {"kind": "default_resolver", "text": text, "style": style, "variant": variant}))
    # neither key nor attribute -> null ; runtime type by class name
    cls_a = type("A", (), {})
    obj = cls_a()
    obj.id = "x1"
    obj.a = 4
    # ... and objects that are falsy in Python (an empty dict, an object whose truth value is False) are objects, not null
    root = {"node": obj, "a": {"id": "only-id"}, "b": {}, "c": _FalsyObj()}
    text, located = doc.roundtrip(doc.parse("{ node { __typename id ... on A { a } } a { id name a } b { b tags } c { c name } }"))
    scn = Scenario(root=root, resolvers=set())
    ok, info = explore.compare_case(schema, located, text, engine, scn, None, None)
    out["counts"]["evaluations"] += 1
    if not ok:
        out["violations"].append(_violation("%s|default-resolver-classname" % info["clause"],
                                            "%s: expected %r got %r" % (text, info.get("expected_data"), info.get("response")),
                                            {"kind": "default_resolver_classname"}))
    # parent offering both a key and an attribute: either value is admissible (statement: "key or attribute")
    class Both(dict):
        pass
    both = Both(num=1)
    both.num = 2
    resp = harness.execute(engine, "{ num }", Scenario(root=both, resolvers=set()))
    out["counts"]["evaluations"] += 1
    if resp.get("data") not in ({"num": 1}, {"num": 2}):
        out["violations"].append(_violation("data-mismatch|default-resolver-both", "key/attr parent: %r" % (resp,),
                                            {"kind": "default_resolver_both"}))
    out["samples"].append({"default_resolver_documents": docs})


class _Ctx:
    pass


def _shard_envelope(item, out):
    """initial_value in {None, dict, object}; context in {None, dict, object} passed by identity; operation by name"""
    schema = seeds.K
    engine = explore.engine_for("K", schema)
    engine_nr = explore.engine_for("K-noresolvers", schema, resolvers=set())
    seen_ctx = []

    # context identity: a dedicated engine whose resolver records the ctx object it receives
    from tartiflette import Resolver, create_engine
    name = harness.fresh_name("ctx")

    @Resolver("Query.num", schema_name=name)
    async def r_num(parent, args, ctx, info):
        seen_ctx.append((ctx, parent))
        return 1

    @Resolver("A.a", schema_name=name)
    async def r_a(parent, args, ctx, info):
        seen_ctx.append((ctx, parent))
        return 2

    @Resolver("Query.a", schema_name=name)
    async def r_qa(parent, args, ctx, info):
        seen_ctx.append((ctx, parent))
        return {"id": 1}

    harness.register(schema, name, resolvers=set())
    eng_ctx = harness.run(create_engine(S.print_sdl(schema), schema_name=name))
    for ctx in (None, {}, {"k": 1}, _Ctx(), 0, ""):
        for init in (None, {"x": 1}, _Ctx()):
            del seen_ctx[:]
            resp = harness.run(eng_ctx.execute("{ num a { a } }", context=ctx, initial_value=init))
            out["counts"]["evaluations"] += 1
            bad = [c for c, _ in seen_ctx if c is not ctx]
            if resp.get("data") != {"num": 1, "a": {"a": 2}} or bad or len(seen_ctx) != 3 or seen_ctx[0][1] is not init:
                out["violations"].append(_violation("envelope|context-identity", "ctx=%r init=%r resp=%r seen=%r" % (ctx, init, resp, seen_ctx),
                                                    {"kind": "envelope_ctx"}))
    # initial value read by resolver-less root fields
    for init, expect in ((None, {"num": None}), ({"num": 5}, {"num": 5}), (Obj(num=6), {"num": 6})):
        resp = harness.run(engine_nr.execute("{ num }", initial_value=init))
        out["counts"]["evaluations"] += 1
        want = expect if expect["num"] is not None else None  # num is Int!: null root value nulls data
        if resp.get("data") != want:
            out["violations"].append(_violation("envelope|initial-value", "init=%r resp=%r" % (init, resp), {"kind": "envelope_init"}))
    # operation chosen by name among several
    text = "query One { num } query Two { color } mutation Three { inc }"
    located = doc.parse(text)
    for opn in ("One", "Two", "Three"):
        op = X.get_operation(located, opn)
        scn = Scenario(root=build_root(schema, schema.root(op.kind), 1))
        ok, info = explore.compare_case(schema, located, text, engine, scn, opn, None)
        out["counts"]["evaluations"] += 1
        out["counts"]["states"] += 1
        if not ok:
            out["violations"].append(_violation("%s|operation-by-name" % info["clause"], "%s op=%s: %r" % (text, opn, info.get("response")), {"kind": "envelope_op", "op": opn}))
    out["sets"]["state_hashes"].add(explore.h64("envelope"))
    out["samples"].append({"envelope": "context x initial_value identity; operation by name"})


def finish(agg, tier):
    c = agg.counts
    distinct = len(agg.sets.get("state_hashes", ()))
    return {
        "states": distinct,
        "transitions": c.get("transitions", 0),
        "traces_validated_against_impl": c.get("evaluations", 0),
        "evaluations": c.get("evaluations", 0),
        "distinct_nontrivial": len(agg.sets.get("nontrivial_hashes", ())),
        "rule": "states = distinct canonical documents (valid by E5's 29-rule validator) within d=%d rewrites of %d seeds over "
                "schema K, plus type-resolver / default-resolver / envelope configurations; each state is executed for every "
                "operation name x variable assignment x %d data trees on the real engine and compared with E5 (ordered data, "
                "resolver-call multiset). non-trivial = reached by >= 2 different rewrite kinds (feature interaction), or a "
                "type-resolver configuration state" % (DEPTH[tier], len(seeds.K_DOCS) + len(seeds.K_MUTATIONS), len(VARIANTS[tier])),
        "bounds": {"rewrite_depth": DEPTH[tier], "level2_kinds": list(LEVEL2_QUICK) if tier == "quick" else "all", "data_variants": len(VARIANTS[tier]), "type_resolver_configs": 16},
        "exhaustive": True,
    }


def replay(rec):
    r = rec["replay"]
    out = _new_out()
    schema = seeds.K
    if r.get("kind") == "sel":
        typecfg = r.get("typecfg") or {}
        typecfg = {k: (set(v) if isinstance(v, list) else v) for k, v in typecfg.items()}
        resolvers = r.get("resolvers", "all")
        resolvers = resolvers if resolvers == "all" else set(resolvers)
        engine = harness.build_engine(schema, resolvers=resolvers, typecfg=typecfg)
        located = doc.parse(r["text"])
        op = X.get_operation(located, r["op"])
        scn = Scenario(root=build_root(schema, schema.root(op.kind), r["variant"]), resolvers=resolvers, typecfg=typecfg)
        ok, info = explore.compare_case(schema, located, r["text"], engine, scn, r["op"], r["variables"])
        if not ok:
            return [{"summary": "%s: expected %r got %r" % (info["clause"], info.get("expected_data"), info.get("response"))}]
        return []
    item = {"default_resolver": ("default_resolver", "quick"), "default_resolver_classname": ("default_resolver", "quick"),
            "default_resolver_both": ("default_resolver", "quick")}.get(r.get("kind"), ("envelope", "quick"))
    run = run_shard(item)
    return run["violations"]
