"""C04 — variable values are coerced exactly as the specification prescribes (DESIGN 4/C04).

Exhaustive over: declared type (10 base types x wrapper shapes) x default in {none, valid, null, invalid} x
presence in {absent, null, each JSON value of the per-type universe}; pairs of variables; undeclared extras.
Oracle: E5 CoerceVariableValues: refused-before-resolvers (every offending variable named) xor the resolver observes
exactly the coerced value.
"""
import itertools

from vf import doc, explore, harness, inputs, schema as S
from vf.data import Scenario
from vf.doc import NullV
from vf.model import coerce as C, execute as X, validate as V

PROPERTY = "C04"
LEVEL = "model_checking"
ASSUMPTIONS = ["DC1 (integral JSON floats for Int/ID) and DC2 (flat list for nested list) accepted either way"]
BUDGET_S = {"quick": 600, "thorough": 1800}
LEVELS = {"quick": 3, "thorough": 3}


def build_schema(level):
    lines = []
    for b in inputs.BASES:
        for i, sh in enumerate(inputs.shapes(level)):
            lines.append("  f_%s_%d(x: %s): String" % (b, i, sh.replace("T", b)))
    lines.append("  h(a: Int, b: [Color!], c: P): String")
    sdl = inputs.INPUT_TYPES_SDL + "type Query {\n" + "\n".join(lines) + "\n}\n"
    return S.parse_sdl(sdl)


_SCHEMAS = {}


def schema_for(level):
    if level not in _SCHEMAS:
        _SCHEMAS[level] = build_schema(level)
    return _SCHEMAS[level]


def shards(tier, seed):
    level = LEVELS[tier]
    items = [("type", b, i, level) for b in inputs.BASES for i in range(len(inputs.shapes(level)))]
    items.append(("pairs", level))
    return items


def names_var(resp, name, span):
    for e in resp.get("errors") or []:
        if explore.error_shape(e):
            continue
        if ("$" + name) in str(e.get("message")):
            return True
        for l in e.get("locations") or []:
            if (span[0], span[1]) <= (l["line"], l["column"]) < (span[2], span[3]):
                return True
    return False


def judge(schema, located, resp, scn, raw, fname):
    """-> clause or None, trying every don't-care policy"""
    op = located.operations[0]
    log = list(scn.log)
    last = None
    for pol in C.Policy.all():
        vals, bad = C.coerce_variables(schema, op, raw, pol)
        if bad:
            if not isinstance(resp, dict) or resp.get("data") is not None or not resp.get("errors"):
                last = "invalid-variables-not-refused"
                continue
            if log:
                last = "resolver-ran-despite-invalid-variables"
                continue
            missing = [b for b in bad if not names_var(resp, b, [vd for vd in op.vars if vd.name == b][0].loc)]
            if missing:
                last = "offending-variable-not-reported"
                continue
            return None
        if not isinstance(resp, dict) or "data" not in resp:
            return "envelope"
        fnode = located.operations[0].sel[0]
        fd = schema.field_def("Query", fnode.name)
        try:
            args = C.coerce_arguments(schema, fd.args, fnode.args, vals, pol)
        except C.ArgError:
            args = None
        if args is None:
            if log:
                last = "resolver-ran-with-uncoercible-argument"
                continue
            if resp.get("data") != {fnode.key: None} or not resp.get("errors"):
                last = "argument-failure-not-a-field-error"
                continue
            return None
        if resp.get("data") is None:
            last = "valid-variables-refused"
            continue
        if len(log) != 1:
            last = "resolver-calls"
            continue
        if log[0][2] != C.freeze(args):
            last = "coerced-value-differs"
            continue
        return None
    return last


def shape_class(v):
    if v is None:
        return "null"
    if isinstance(v, list):
        return "list"
    if isinstance(v, dict):
        return "object"
    return type(v).__name__


def run_case(schema, engine, text, located, raw, out, sig_base, fname):
    scn = Scenario(root={})
    out["counts"]["evaluations"] += 1
    try:
        resp = harness.execute(engine, text, scn, variables=raw)
    except Exception as e:  # noqa
        resp = repr(e)
        clause = "execute-raised"
    else:
        clause = judge(schema, located, resp, scn, raw, fname)
        key = "refused" if (isinstance(resp, dict) and resp.get("data") is None) else "ran"
        out["tables"]["outcomes"][key] = out["tables"]["outcomes"].get(key, 0) + 1
    if clause:
        out["violations"].append({
            "signature": "%s|%s" % (clause, sig_base),
            "summary": "%s: %s variables=%r -> %r (resolver saw %r)" % (clause, text, raw, resp, scn.log),
            "replay": {"text": text, "variables_repr": repr(raw), "level": out["level"]}})


def run_shard(item):
    out = {"counts": {"evaluations": 0, "documents": 0, "cases": 0}, "tables": {"outcomes": {}}, "sets": {}, "samples": [],
           "violations": [], "machinery": [], "level": item[-1]}
    level = item[-1]
    schema = schema_for(level)
    engine = explore.engine_for(("C04", level), schema)
    if item[0] == "type":
        _, base, si, _ = item
        shape = inputs.shapes(level)[si]
        tstr = shape.replace("T", base)
        t = doc.parse_type_str(tstr)
        fname = "f_%s_%d" % (base, si)
        values = inputs.json_values(t)
        good_lit = inputs.to_literal(schema, t, inputs._good(t))
        bad_lit = inputs.to_literal(schema, t, inputs._wrong(t))
        defaults = [("none", None), ("valid", good_lit), ("null", NullV()), ("invalid", bad_lit)]
        for dlabel, dlit in defaults:
            head = "query($v: %s%s)" % (tstr, "" if dlit is None else " = " + S.value_str(dlit))
            text = "%s { %s(x: $v) }" % (head, fname)
            located = doc.parse(text)
            rules = V.validate(schema, located)
            default_invalid = dlabel == "invalid" or (dlabel == "null" and t[0] == "nn")
            if default_invalid:
                if "5.6.1" not in rules and "5.6.2" not in rules and "5.6.4" not in rules:
                    out["machinery"].append("invalid default not flagged by E5: " + text)
                    continue
            elif rules:
                out["machinery"].append("generated document is not valid (%s): %s" % (sorted(rules), text))
                continue
            out["counts"]["documents"] += 1
            presences = [("absent", {})]
            if not default_invalid:
                presences += [(shape_class(v), {"v": v}) for v in values]
            for plabel, raw in presences:
                for extra in ((), (("zz_undeclared", 1),)) if plabel in ("absent", "null") else ((),):
                    raw2 = dict(raw)
                    raw2.update(dict(extra))
                    out["counts"]["cases"] += 1
                    run_case(schema, engine, text, located, raw2, out,
                             "%s|default-%s|%s" % (shape.replace("T", "Leaf" if base not in ("P", "Q", "R") else "Input"), dlabel, plabel), fname)
        if si in (3, 9):
            out["samples"].append({"declared": tstr, "defaults": [d for d, _ in defaults], "values": [repr(v) for v in values[:8]]})
    else:
        # pairs of variables in one operation: both offending variables must be reported
        text = "query($a: Int, $b: [Color!], $c: P = {a: 1}) { h(a: $a, b: $b, c: $c) }"
        located = doc.parse(text)
        assert not V.validate(schema, located)
        A = [("ok", 1), ("bad", "x"), ("null", None), ("absent", C.ABSENT)]
        B = [("ok", ["RED"]), ("ok1", "BLUE"), ("bad", ["PURPLE"]), ("bad-null-item", [None]), ("absent", C.ABSENT)]
        Cc = [("ok", {"b": "y"}), ("bad", {"zz": 1}), ("bad-leaf", {"c": ["x"]}), ("absent", C.ABSENT), ("null", None)]
        for (la, a), (lb, b), (lc, c) in itertools.product(A, B, Cc):
            raw = {k: v for k, v in (("a", a), ("b", b), ("c", c)) if v is not C.ABSENT}
            out["counts"]["cases"] += 1
            run_case(schema, engine, text, located, raw, out, "pairs|%s|%s|%s" % (la, lb, lc), "h")
        out["counts"]["documents"] += 1
        out["samples"].append({"document": text, "assignments": "4 x 5 x 5 ok/bad/null/absent combinations"})
    del out["level"]
    return out


def finish(agg, tier):
    c = agg.counts
    oc = agg.tables.get("outcomes", {})
    return {
        "states": c.get("cases", 0),
        "transitions": c.get("evaluations", 0),
        "traces_validated_against_impl": c.get("evaluations", 0),
        "evaluations": c.get("evaluations", 0),
        "distinct_nontrivial": oc.get("refused", 0),
        "rule": "a state = (declared variable type: 10 base types x %d wrapper shapes, default in none/valid/null/invalid, raw "
                "variables object); values come from per-type universes with right/wrong/borderline kinds at every position "
                "(leaf, list item, input field, missing required, unknown field, single value for list), presence absent/null/value, "
                "an undeclared extra variable, and all ok/bad/null/absent combinations of three variables in one operation. "
                "non-trivial = requests the engine refused" % len(inputs.shapes(LEVELS[tier])),
        "exhaustive": True,
    }


def replay(rec):
    r = rec["replay"]
    level = r["level"]
    schema = schema_for(level)
    engine = harness.build_engine(schema)
    located = doc.parse(r["text"])
    raw = eval(r["variables_repr"], {"inf": float("inf"), "nan": float("nan")})  # noqa: S307 (our own repr of JSON-like data)
    out = {"counts": {"evaluations": 0}, "tables": {"outcomes": {}}, "violations": [], "level": level}
    run_case(schema, engine, r["text"], located, raw, out, "replay", None)
    return out["violations"]
