"""C17 — engines registered under different schema names are independent (DESIGN 4/C17, engine E4).

ALL registration / cooking orders of 2-4 implementation bundles with identical type, field, scalar, directive and
subscription names but different behaviour, one forked process per history; every engine's probe answers must equal
those of the same bundle built alone in a fresh process.
"""
import itertools
import json
import os
import sys
import traceback

from vf import boot  # noqa: F401
from vf import harness

PROPERTY = "C17"
LEVEL = "model_checking"
ASSUMPTIONS = ["a forked child of a process that has imported tartiflette but registered nothing is a 'fresh process'"]
BUDGET_S = {"quick": 600, "thorough": 3000}

SDL = """
directive @tag on FIELD_DEFINITION
directive @arg on ARGUMENT_DEFINITION | INPUT_FIELD_DEFINITION
directive @traced on SCHEMA
scalar Money
scalar Counter
interface Node { id: ID! }
type Item implements Node { id: ID! price: Money label: String @tag secret: Int @nonIntrospectable old: Int @deprecated(reason: "gone") }
type Item2 implements Node { id: ID! price: Money label: String @tag }
input In { m: Money = 1 @arg ms: [Money!] }
type Query { item: Node item2: Node value: Int count: Counter echo(m: Money @arg): String nodef: Int echol(ms: [Money!]): String echoi(i: In): String }
type Subscription { tick: Int }
enum Level { LOW }
"""


def sdl_of(i):
    """same type / field / scalar / directive names in every bundle; the declarations differ too (field, enum value, default, deprecation)"""
    return SDL + """
extend type Item { only%d: Int stock(n: Int = %d): Int%s }
extend enum Level { L%d }
%s""" % (i, i, " @deprecated" if i % 2 else "", i, "schema @traced { query: Query subscription: Subscription }\n" if i % 2 else "")

KINDS = ["resolvers", "type_resolver", "scalar", "directive", "subscription"]
PROBES = [
    ("q", "{ value nodef item { __typename id ... on Item { price label } ... on Item2 { price label } } echo(m: 5) }"),
    ("q", "{ item2 { __typename id } item { __typename } }"),
    ("q", "query($m: Money) { echo(m: $m) }"),
    ("q", "{ count again: count }"),
    ("q", "{ modval }"),
    ("q", "{ value zzNoSuchField item { zzNeither } }"),
    ("q", "{ __type(name: \"Money\") { name kind } __schema { subscriptionType { name } } }"),
    ("q", "{ a: __type(name: \"Item\") { fields(includeDeprecated: true) { name isDeprecated args { name defaultValue } } } "
          "b: __type(name: \"Level\") { enumValues { name } } __schema { types { name fields { name } enumValues { name } } } }"),
    ("s", "subscription { tick }"),
    # the built-in directives are part of every bundle: declared, listed, and effective
    ("q", "{ __schema { directives { name locations args { name } } } i: __type(name: \"Item\") { fields { name } } item { ... on Item { secret old } } }"),
    # variables of wrapped / composite types mentioning the per-bundle scalar (value, default, absent)
    ("q", "query($m: Money!) { echo(m: $m) }"),
    ("q", "query($ms: [Money!] = [3]) { echol(ms: $ms) a: echol(ms: [4, 5]) }"),
    ("q", "query($zs: [Money!] = [3], $z: Money! = 2) { echol(ms: $zs) echo(m: $z) }"),
    ("q", "query($i: In!, $is: In = {ms: [8]}) { echoi(i: $i) b: echoi(i: $is) c: echoi(i: {m: 6}) }"),
]


class MoneyImpl:
    def __init__(self, i):
        self.i = i

    def coerce_output(self, v):
        return "%d:%s" % (self.i, v)

    def coerce_input(self, v):
        return int(v) + self.i

    def parse_literal(self, ast):
        return int(ast.value) + 10 * self.i


class CounterImpl:
    """a class-based scalar with per-instance state; registered for every bundle by feeding each @Scalar call's return value (the
    class) into the next one, as stacked decorators do: every schema name must get its own instance"""

    def __init__(self):
        self.calls = 0

    def coerce_output(self, v):
        self.calls += 1
        return "call#%d" % self.calls

    def coerce_input(self, v):
        return v

    def parse_literal(self, ast):
        return ast.value


COUNTER_CHAIN = [CounterImpl]


class TracedImpl:
    """schema-level execution hook of the odd bundles: stamps the errors of its own responses in place"""

    def __init__(self, i):
        self.i = i

    async def on_schema_execution(self, directive_args, next_directive, schema, document, parsing_errors, operation_name, context,
                                  variables, initial_value):
        result = await next_directive(schema, document, parsing_errors, operation_name, context, variables, initial_value)
        for e in (result.get("errors") or []) if isinstance(result, dict) else []:
            if isinstance(e, dict):
                e.setdefault("extensions", {})["tracedBy"] = "bundle%d" % self.i
        return result


class TagImpl:
    def __init__(self, i):
        self.i = i

    async def on_field_execution(self, directive_args, next_resolver, parent, args, ctx, info):
        return "%s-tag%d" % (await next_resolver(parent, args, ctx, info), self.i)


class ArgImpl:
    """input-side hooks (argument / input field): each bundle's implementation marks the value with its own number"""

    def __init__(self, i):
        self.i = i

    async def on_argument_execution(self, directive_args, next_directive, parent_node, argument_definition_node, argument_node, value, ctx):
        return "%s|arg%d" % (await next_directive(parent_node, argument_definition_node, argument_node, value, ctx), self.i)

    async def on_post_input_coercion(self, directive_args, next_directive, parent_node, value, ctx):
        return "%s|in%d" % (await next_directive(parent_node, value, ctx), self.i)


# schema names are plain strings: names differing only by letter case or by a surrounding blank are different schemas
BUNDLE_NAMES = ["shop", "Shop", "shop ", "SHOP", " shop", "shoP", "Shop ", "sHop"]


def bname(i):
    return BUNDLE_NAMES[i] if i < len(BUNDLE_NAMES) else "bundle%d" % i


def register(i, kinds):
    from tartiflette import Directive, Resolver, Scalar, Subscription, TypeResolver
    name = bname(i)
    if "resolvers" in kinds:
        @Resolver("Query.value", schema_name=name)
        async def r_value(p, a, c, info):
            return 100 + i

        want = "Item" if i % 2 else "Item2"

        def field_tr(result, ctx, info, abstract_type):
            return want

        # three ways of naming the runtime type, rotating over the bundles: field-level type_resolver (i % 3 == 0),
        # @TypeResolver on the interface (i % 3 == 1, registered by the "type_resolver" kind), `_typename` in the value (i % 3 == 2)
        @Resolver("Query.item", schema_name=name, **({"type_resolver": field_tr} if i % 3 == 0 else {}))
        async def r_item(p, a, c, info):
            return {"id": i, "price": 5, "label": "L", "_typename": want}

        @Resolver("Query.item2", schema_name=name)
        async def r_item2(p, a, c, info):
            return {"id": 10 + i, "price": 6, "label": "M", "_typename": "Item2" if i % 2 else "Item"}

        @Resolver("Query.echo", schema_name=name)
        async def r_echo(p, a, c, info):
            return "b%d:%r" % (i, a)

        @Resolver("Query.count", schema_name=name)
        async def r_count(p, a, c, info):
            return 0

        @Resolver("Query.echol", schema_name=name)
        async def r_echol(p, a, c, info):
            return "bl%d:%r" % (i, a)

        @Resolver("Query.echoi", schema_name=name)
        async def r_echoi(p, a, c, info):
            return "bi%d:%r" % (i, sorted(a.get("i", {}).items()))
    if "type_resolver" in kinds and i % 3 == 1:
        @TypeResolver("Node", schema_name=name)
        def tr(result, ctx, info, abstract_type):
            return "Item" if (result["id"] < 10) == bool(i % 2) else "Item2"
    # one implementation *class* shared by all bundles, configured per instance (state lives on the instance)
    if "scalar" in kinds:
        Scalar("Money", schema_name=name)(MoneyImpl(i))
        COUNTER_CHAIN[0] = Scalar("Counter", schema_name=name)(COUNTER_CHAIN[0])
    if "directive" in kinds:
        Directive("tag", schema_name=name)(TagImpl(i))
        Directive("arg", schema_name=name)(ArgImpl(i))
        Directive("traced", schema_name=name)(TracedImpl(i))
    if "subscription" in kinds:
        @Subscription("Subscription.tick", schema_name=name)
        async def tick(p, a, c, info):
            yield {"tick": i}
            yield {"tick": i + 1}


SAME_SDL = [False]
# ONE module definition object shared by every bundle (a reusable component listed in several engines' `modules=`)
MODULE_DEF = {"name": "vf.c17_module", "config": {"base": 100, "suffix": "!"}}


def cook(i):
    from tartiflette import create_engine
    # identical SDL text for every bundle (mode "same-sdl") or per-bundle differences
    sdl = (SDL + "\nextend type Item { only0: Int stock(n: Int = 0): Int }\nextend enum Level { L0 }\n") if SAME_SDL[0] else sdl_of(i)
    if i % 2:
        return harness.run(create_engine(sdl, schema_name=bname(i), modules=[MODULE_DEF]))
    # ... and the other way of building an engine
    from tartiflette import Engine
    if i % 4 == 0:
        # the constructor names *another* bundle's schema and cook() overrides it (what cook() is given wins, as for every other setting)
        eng = Engine(sdl, schema_name=bname(i + 1), modules=[MODULE_DEF, "vf.c17_module_plain"])
        harness.run(eng.cook(schema_name=bname(i)))
        return eng
    eng = Engine(sdl, schema_name=bname(i), modules=[MODULE_DEF, "vf.c17_module_plain"])
    harness.run(eng.cook())
    return eng


def probe(engine, variables_value):
    out = []
    for kind, text in PROBES:
        try:
            if kind == "q":
                out.append(harness.run(engine.execute(text, variables={"m": variables_value, "ms": [1, 2], "i": {"m": variables_value}})))
            else:
                async def go():
                    return [r async for r in engine.subscribe(text)]
                out.append(harness.run(go()))
        except Exception as e:  # noqa
            out.append("RAISED %r" % (e,))
    return json.dumps(out, sort_keys=True, default=repr)


def failing_cook(kind):
    """an attempt to build some *other* schema name that fails: must leave every other schema name as it was"""
    from tartiflette import Resolver, create_engine
    name = "faulty_%s" % kind
    if kind == "resolver-for-missing-field":
        @Resolver("Query.noSuchField", schema_name=name)
        async def r(p, a, c, info):
            return 1
        sdl = SDL
    elif kind == "syntax":
        sdl = "type Query { a: Int"
    elif kind == "directive-with-sync-hook":
        from tartiflette import Directive

        @Directive("shout", schema_name=name)
        class Shout:
            def on_field_execution(self, directive_args, next_resolver, parent, args, ctx, info):  # not a coroutine function: refused
                return None
        sdl = "directive @first on FIELD_DEFINITION directive @shout on FIELD_DEFINITION type Query { a: Int @shout }"

        @Directive("first", schema_name=name)
        class First:
            async def on_field_execution(self, directive_args, next_resolver, parent, args, ctx, info):
                return await next_resolver(parent, args, ctx, info)
    else:  # scalar without implementation
        sdl = "scalar Unimplemented type Query { a: Unimplemented }"
    try:
        harness.run(create_engine(sdl, schema_name=name))
    except Exception:  # noqa
        return
    raise AssertionError("the faulty schema %s was expected not to build" % kind)


def run_history(events):
    """events: list of ("reg", i, kinds tuple) | ("cook", i) | ("badcook", kind).  Returns {bundle: probe answers (twice, alternating)}."""
    engines = {}
    for ev in events:
        if ev[0] == "mode":
            SAME_SDL[0] = True
        elif ev[0] == "reg":
            register(ev[1], ev[2])
        elif ev[0] == "badcook":
            failing_cook(ev[1])
        else:
            engines[ev[1]] = cook(ev[1])
    answers = {}
    order = sorted(engines)
    for rnd in range(2):  # alternating probes
        for i in (order if rnd == 0 else order[::-1]):
            answers.setdefault(str(i), []).append(probe(engines[i], 7))
    return answers


def in_child(fn, *args):
    """run fn(*args) in a forked child; -> result or ('ERROR', text)"""
    r, w = os.pipe()
    pid = os.fork()
    if pid == 0:
        try:
            os.close(r)
            try:
                res = fn(*args)
            except BaseException:  # noqa
                res = ["ERROR", traceback.format_exc()[-1500:]]
            with os.fdopen(w, "w") as f:
                json.dump(res, f)
        finally:
            os._exit(0)
    os.close(w)
    with os.fdopen(r) as f:
        data = f.read()
    os.waitpid(pid, 0)
    try:
        return json.loads(data)
    except Exception:
        return ["ERROR", "child produced no result: %r" % data[:200]]


def orders(n):
    """all sequences of reg(i), cook(i) for i < n with reg(i) before cook(i)"""
    evs = [("reg", i) for i in range(n)] + [("cook", i) for i in range(n)]
    for perm in itertools.permutations(evs):
        pos = {e: k for k, e in enumerate(perm)}
        if all(pos[("reg", i)] < pos[("cook", i)] for i in range(n)):
            yield [("reg", e[1], tuple(KINDS)) if e[0] == "reg" else e for e in perm]


def granular_orders():
    """two bundles, every registration kind a separate event (fixed order inside a bundle), all interleavings"""
    a = [("reg", 0, (k,)) for k in KINDS] + [("cook", 0)]
    b = [("reg", 1, (k,)) for k in KINDS] + [("cook", 1)]
    n = len(a) + len(b)
    for pos in itertools.combinations(range(n), len(a)):
        seq, ia, ib = [], 0, 0
        ps = set(pos)
        for k in range(n):
            if k in ps:
                seq.append(a[ia])
                ia += 1
            else:
                seq.append(b[ib])
                ib += 1
        yield seq


BAD_KINDS = ["resolver-for-missing-field", "syntax", "scalar-without-implementation", "directive-with-sync-hook"]


def with_failed_cook(n):
    """every order of n bundles with one failing cook of another schema name inserted at every position"""
    for h in orders(n):
        for pos in range(len(h) + 1):
            for kind in (BAD_KINDS if n == 2 else (BAD_KINDS[0], BAD_KINDS[3])):
                yield h[:pos] + [("badcook", kind)] + h[pos:]


def all_histories(tier):
    hs = []
    for n in (2, 3):
        hs.extend(orders(n))
    hs.extend(granular_orders())
    hs.extend(with_failed_cook(2))
    hs.extend(with_failed_cook(3))
    # the same SDL *text* for every bundle (only the registered implementations differ)
    for n in (2, 3):
        hs.extend([("mode", "same-sdl")] + h for h in orders(n))
    if tier == "thorough":
        hs.extend([("mode", "same-sdl")] + h for h in orders(4))
    if tier == "thorough":
        hs.extend(orders(4))
    return hs


def shards(tier, seed):
    hs = all_histories(tier)
    nshards = 64 if tier == "quick" else 128
    return [(k, nshards, tier) for k in range(nshards)]


_ALONE = {}


def alone(i, same=False):
    if (i, same) not in _ALONE:
        res = in_child(run_history, ([("mode", "same-sdl")] if same else []) + [("reg", i, tuple(KINDS)), ("cook", i)])
        _ALONE[(i, same)] = res
    return _ALONE[(i, same)]


def run_shard(item):
    k, nshards, tier = item
    out = {"counts": {"histories": 0, "events": 0, "probes": 0, "nontrivial": 0}, "tables": {"bundles": {}}, "sets": {}, "samples": [],
           "violations": [], "machinery": []}
    hs = [h for idx, h in enumerate(all_histories(tier)) if idx % nshards == k]
    for h in hs:
        res = in_child(run_history, h)
        out["counts"]["histories"] += 1
        out["counts"]["events"] += len(h)
        nb = len({e[1] for e in h if e[0] not in ("badcook", "mode")})
        out["tables"]["bundles"][str(nb)] = out["tables"]["bundles"].get(str(nb), 0) + 1
        hh = [e for e in h if e[0] not in ("badcook", "mode")]
        interleaved = any(hh[j][1] != hh[j + 1][1] for j in range(len(hh) - 1))
        if interleaved:
            out["counts"]["nontrivial"] += 1
        if isinstance(res, list):
            out["violations"].append({"signature": "history-failed|%d-bundles" % nb,
                                      "summary": "history %r raised: %s" % (h, res[1][-800:]), "replay": {"history": h}})
            continue
        for b, answers in res.items():
            ref = alone(int(b), same=(h[0][0] == "mode"))
            if isinstance(ref, list):
                out["machinery"].append("bundle %s cannot be built alone: %s" % (b, ref[1][-300:]))
                continue
            out["counts"]["probes"] += len(answers)
            if answers != ref[b]:
                kinds = ("same-sdl-text" if h[0][0] == "mode" else "after-failed-cook" if any(e[0] == "badcook" for e in h)
                         else "granular" if any(len(e) == 3 and len(e[2]) == 1 for e in h) else "atomic")
                out["violations"].append({
                    "signature": "engine-differs-from-alone|%d-bundles|%s" % (nb, kinds),
                    "summary": "history %r: bundle %s answers %s but alone %s" % (h, b, answers[0][:600], ref[b][0][:600]),
                    "replay": {"history": h}})
                break
    if k == 0 and hs:
        out["samples"].append({"history": hs[0], "probes": [p[1] for p in PROBES]})
        out["samples"].append({"history": hs[-1]})
    return out


def finish(agg, tier):
    c = agg.counts
    return {
        "states": c.get("histories", 0),
        "transitions": c.get("events", 0),
        "traces_validated_against_impl": c.get("probes", 0),
        "evaluations": c.get("histories", 0),
        "distinct_nontrivial": c.get("nontrivial", 0),
        "rule": "states = histories, one forked process each: ALL orders of reg(i)/cook(i) events (reg before cook) for 2 bundles (6), 3 "
                "bundles (90)%s, and for 2 bundles with each of the 5 registration kinds (resolvers, type resolver, scalar, directive, "
                "subscription) as a separate event (924 interleavings), and for 2 / 3 bundles with a *failing* cook of another schema name (resolver "
                "for a missing field, syntax error, scalar without implementation) inserted at every position (90 + 630), and all orders of 2 / 3 bundles given the *same SDL text* (96). Bundles share every type/field/scalar/directive/subscription name "
                "and differ in behaviour. Each cooked engine is probed twice in alternation (query with literal and variable scalar "
                "input, abstract type, directive, introspection, subscription) and compared with the same bundle built alone in a fresh "
                "process. non-trivial = histories that interleave events of different bundles"
                % (", 4 bundles (2520)" if tier == "thorough" else ""),
        "exhaustive": True,
    }


def replay(rec):
    h = [tuple(tuple(x) if isinstance(x, list) else x for x in e) for e in rec["replay"]["history"]]
    res = in_child(run_history, h)
    if isinstance(res, list):
        return [{"summary": res[1][-600:]}]
    out = []
    for b, answers in res.items():
        ref = alone(int(b), same=(h[0][0] == "mode"))
        if answers != ref[b]:
            out.append({"summary": "bundle %s: %s vs alone %s" % (b, answers[0][:500], ref[b][0][:500])})
    return out
