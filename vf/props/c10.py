"""C10 — built-in scalars obey their coercion laws (DESIGN 4/C10).

Exhaustive over 8 scalars x 3 directions x the boundary universe, on the scalar objects of a cooked schema and
through echo fields of a real engine (literal spelling, variable spelling, resolver return).
L1 result coercion fails or yields the wire type denoting the same value; L2 input coercion accepts exactly the
specified kinds; L3 literal == variable; L4 idempotence / round trips.
"""
import datetime as dt
from decimal import Decimal
from fractions import Fraction
import json
import math

from vf import doc, explore, harness, schema as S
from vf.data import Scenario
from vf.doc import IntV, FloatV, StrV, BoolV
from vf.model import coerce as C
from vf.props.c02 import Bad

PROPERTY = "C10"
LEVEL = "model_checking"
ASSUMPTIONS = ["DC1: integral JSON floats for Int / ID may be accepted or rejected", "DC10: String result for values other than strings, booleans and numbers is any str"]
BUDGET_S = {"quick": 600, "thorough": 600}

SCALARS = ["Int", "Float", "String", "Boolean", "ID", "Date", "Time", "DateTime"]
INT_MIN, INT_MAX = -(2 ** 31), 2 ** 31 - 1

VALUES = [
    None, True, False, 0, 1, -1, 2, 7, 2 ** 31 - 2, 2 ** 31 - 1, 2 ** 31, 2 ** 31 + 1, -(2 ** 31) + 1, -(2 ** 31), -(2 ** 31) - 1,
    2 ** 32, 2 ** 53 - 1, 2 ** 53, 2 ** 53 + 1, -(2 ** 53), 2 ** 63, 2 ** 64, 10 ** 30, -(10 ** 30), 10 ** 400,
    0.0, -0.0, 1.0, -1.0, 3.0, 0.5, 1.5, -1.5, 0.1, 2147483647.0, 2147483648.0, -2147483648.0, -2147483649.0, 2147483647.5,
    4294967296.0, 9007199254740992.0, 1e20, 1e308, 1.7976931348623157e308, 5e-324, 2.2250738585072014e-308, -5e-324,
    float("nan"), float("inf"), float("-inf"),
    "", " ", "0", "1", "-1", "+1", "01", "1.0", "1.5", "1e3", "1E3", " 1 ", "1 ", "0x10", "1_000", "abc", "true", "false", "True",
    "null", "NaN", "nan", "inf", "-inf", "Infinity", "2147483647", "2147483648", "-2147483649", "1e400", "é", "☃", "\u0000", "a\nb",
    "٣", "１",
    b"1", b"", (1,), (), [1], [], [1, 2], {"a": 1}, {}, {1}, object, Bad, Exception("x"), 1j,
    "2020-02-29", "2019-02-29", "2020-13-01", "2020-1-1", "20200101", "13:45:10", "24:00:00", "1:2:3", "13:45", "13:45:10.5",
    "2020-02-29T13:45:10", "2020-02-29 13:45:10", "2020-02-29T13:45:10Z", "2020-02-29T25:00:00", "2020-02-29T13:45:10.123456",
    dt.datetime(2020, 2, 29), dt.datetime(2020, 2, 29, 13, 45, 10), dt.datetime(1900, 1, 1, 13, 45, 10), dt.datetime(1, 1, 1),
    dt.datetime(9999, 12, 31, 23, 59, 59), dt.date(2020, 2, 29), dt.time(13, 45, 10),
    # exact-arithmetic numbers a resolver may well return: integral, fractional, and within a double's resolution of an integer
    Decimal("3"), Decimal("1.5"), Decimal("-2"), Decimal("0.9999999999999999999999999999"), Decimal("41.99999999999999999999"),
    Decimal("7.00000000000000000001"), Decimal("2147483646.99999999999"), Decimal("2147483648"), Decimal("1E+2"), Decimal("NaN"),
    Decimal("Infinity"), Fraction(3, 1), Fraction(7, 2), Fraction(10 ** 30 + 1, 10 ** 30), Fraction(-1, 3),
]


def thorough_values():
    """neighbourhoods of every boundary as ints, floats and their decimal strings"""
    out = list(VALUES)
    for b in (0, 2 ** 31, -(2 ** 31), 2 ** 32, 2 ** 53, -(2 ** 53), 2 ** 63, 2 ** 64, 10 ** 15, 10 ** 22):
        for d in range(-3, 4):
            n = b + d
            out += [n, float(n), str(n), str(float(n)), " %d" % n, "%d " % n, -n]
    for e in (-400, -324, -323, -308, -1, 0, 1, 15, 16, 22, 23, 308, 309, 400):
        out += ["1e%d" % e, "-1e%d" % e]
        try:
            out.append(float("1e%d" % e))
        except OverflowError:
            pass
    return out


def make(v):
    return v() if isinstance(v, type) and v in (object, Bad) else v


NUMBER = (int, float, Decimal, Fraction)


def num_eq(r, x):
    try:
        return r == x
    except Exception:
        return False


def str_number(x):
    try:
        f = float(x)
    except Exception:
        return None
    return f


# ---- L1 ------------------------------------------------------------------------------------------------------------------
def l1_ok(scalar, x, r):
    """result r was produced for internal value x: is it of the wire type and does it denote the same value?"""
    if scalar == "Int":
        if type(r) is not int or not (INT_MIN <= r <= INT_MAX):
            return "int-not-32bit-int"
        if isinstance(x, bool):
            return None if r == int(x) else "int-changed-value"
        if isinstance(x, NUMBER):
            return None if num_eq(r, x) else "int-changed-value"
        if isinstance(x, str):
            f = str_number(x)
            return None if (f is not None and num_eq(r, f)) else "int-changed-value"
        return "int-from-non-number"
    if scalar == "Float":
        if type(r) is not float or not math.isfinite(r):
            return "float-not-finite-float"
        if isinstance(x, bool):
            return None if r == float(x) else "float-changed-value"
        if isinstance(x, int):
            return None if r == float(x) else "float-changed-value"
        if isinstance(x, float):
            return None if r == x else "float-changed-value"
        if isinstance(x, (Decimal, Fraction)):
            return None if r == float(x) else "float-changed-value"
        if isinstance(x, str):
            f = str_number(x)
            return None if (f is not None and r == f) else "float-changed-value"
        return "float-from-non-number"
    if scalar == "String":
        if type(r) is not str:
            return "string-not-str"
        if isinstance(x, str):
            return None if r == x else "string-changed-value"
        # booleans and numbers must still denote the same value ("true"/"false", a numeral that reads back equal); DC10 for the rest
        if isinstance(x, bool):
            return None if r.lower() in ("true", "false") and (r.lower() == "true") is x else "string-changed-value"
        if isinstance(x, (int, float)):
            if x != x:
                return None
            f = str_number(r)
            return None if (f is not None and num_eq(f, x)) or (isinstance(x, int) and r == str(x)) else "string-changed-value"
        return None  # DC10
    if scalar == "Boolean":
        if type(r) is not bool:
            return "boolean-not-bool"
        if isinstance(x, bool):
            return None if r is x else "boolean-changed-value"
        if isinstance(x, NUMBER):
            return None if r == bool(x) else "boolean-changed-value"
        return "boolean-from-non-boolean"
    if scalar == "ID":
        if type(r) is not str:
            return "id-not-str"
        if isinstance(x, str):
            return None if r == x else "id-changed-value"
        if isinstance(x, bool):
            return "id-from-bool"
        if isinstance(x, int):
            return None if r == str(x) else "id-changed-value"
        if isinstance(x, (float, Decimal, Fraction)):
            try:
                return None if (x == math.floor(x) and r == str(int(x))) else "id-changed-value"
            except (ValueError, OverflowError, ArithmeticError):
                return "id-changed-value"
        return "id-from-other"
    # temporal
    if type(r) is not str:
        return "temporal-not-str"
    if type(x) is dt.datetime and x.tzinfo is None:
        # the text must denote the same instant / day / time of day in the canonical ISO layout (zero padded, four-digit year)
        d = "%04d-%02d-%02d" % (x.year, x.month, x.day)
        t = "%02d:%02d:%02d" % (x.hour, x.minute, x.second)
        want = {"Date": d, "Time": t, "DateTime": d + "T" + t}[scalar]
        if r != want and not (scalar != "Date" and x.microsecond and r.startswith(want)):
            return "temporal-text-denotes-another-value"
    return None


# ---- L2 (reference: vf.model.coerce) ------------------------------------------------------------------------------------------
def l2_expected(scalar, v):
    """set of admissible outcomes: values or C.INVALID"""
    if scalar in ("Int", "Float", "String", "Boolean", "ID"):
        return {repr(_t(C.coerce_scalar_input(scalar, v, pol))) for pol in (C.Policy(True), C.Policy(False))}
    fmt = {"Date": "%Y-%m-%d", "Time": "%H:%M:%S", "DateTime": "%Y-%m-%dT%H:%M:%S"}[scalar]
    if isinstance(v, str):
        if not canonical(scalar, v):
            return None  # the statement only speaks about well-formed values: anything goes
        try:
            return {repr(_t(dt.datetime.strptime(v, fmt)))}
        except ValueError:
            return {repr(_t(C.INVALID))}
    return {repr(_t(C.INVALID))}


_CANON = {"Date": r"\d{4}-\d{2}-\d{2}", "Time": r"\d{2}:\d{2}:\d{2}", "DateTime": r"\d{4}-\d{2}-\d{2}T\d{2}:\d{2}:\d{2}"}


def canonical(scalar, v):
    import re
    return isinstance(v, str) and v.isascii() and re.fullmatch(_CANON[scalar], v) is not None


def _t(v):
    return (type(v).__name__, v) if v is not C.INVALID else "INVALID"


def literal_for(v):
    if isinstance(v, bool):
        return BoolV(v)
    if isinstance(v, int):
        return IntV(str(v))
    if isinstance(v, float):
        if not math.isfinite(v):
            return None
        return FloatV(repr(v))
    if isinstance(v, str):
        return StrV(v)
    return None


EXTRA_LITERALS = [(FloatV("1e400"), float("inf")), (FloatV("-1e400"), float("-inf")), (FloatV("1.0"), 1.0), (FloatV("1e3"), 1000.0),
                  (FloatV("1E3"), 1000.0), (IntV("0"), 0), (FloatV("0.1e1"), 1.0), (FloatV("1e-400"), 0.0),
                  (FloatV("2147483648.0"), 2147483648.0), (IntV("99999999999999999999999999999"), 99999999999999999999999999999)]


def shards(tier, seed):
    return [("direct", s, tier) for s in SCALARS] + [("engine", s, tier) for s in SCALARS[:5]] + [("sdl-defaults", "Int", tier)]


_SDL = """
type Query {
  %s
}
""" % "\n  ".join("o_%s: %s\n  i_%s(x: %s): String" % (s, s, s, s) for s in SCALARS)
SCHEMA = S.parse_sdl(_SDL)


def _engine():
    return explore.engine_for("C10", SCHEMA)


def scalar_object(eng, scalar):
    """the scalar attached to the cooked schema; falls back to the built-in implementation classes"""
    try:
        return eng._schema.find_type(scalar)
    except AttributeError:
        import importlib
        mod = importlib.import_module("tartiflette.scalar.builtins." + scalar.lower())
        return getattr(mod, "Scalar" + scalar)()


SDL_DEFAULTS = [  # (field, Int literal written as the SDL default, in range?)
    ("top", "2147483647", True), ("bottom", "-2147483648", True), ("over", "2147483648", False), ("under", "-2147483649", False),
    ("huge", "3000000000", False), ("wide", "4294967296", False), ("zero", "0", True)]


def run_sdl_defaults(out):
    """Int literals written in the SDL (argument defaults, input-field defaults, list items) obey the same 32-bit range as literals of the
    query and variables: an in-range default is delivered as that int, an out-of-range one is never delivered"""
    from tartiflette import Resolver, create_engine
    name = harness.fresh_name("c10sdl")
    seen = []
    sdl = "input Box { v: Int = 4294967296 w: Int = 7 }\ntype Query {\n%s\n  box(b: Box = {}): String\n  items(xs: [Int] = [1, 2147483648]): String\n}" % "\n".join(
        "  %s(x: Int = %s): String" % (f, lit) for f, lit, _ in SDL_DEFAULTS)
    for f in [x[0] for x in SDL_DEFAULTS] + ["box", "items"]:
        def mk(f):
            async def r(parent, args, ctx, info):
                seen.append((f, repr(args)))
                return "ran"
            return r
        Resolver("Query." + f, schema_name=name)(mk(f))
    try:
        eng = harness.run(create_engine(sdl, schema_name=name))
    except Exception as e:  # noqa  (refusing the SDL outright is also a way of never delivering the value)
        out["tables"]["l1"]["sdl-refused"] = 1
        return
    for f, lit, ok in SDL_DEFAULTS + [("box", None, False), ("items", None, False)]:
        del seen[:]
        resp = harness.run(eng.execute("{ %s }" % f))
        out["counts"]["evaluations"] += 1
        out["counts"]["triples"] += 1
        delivered = [a for g, a in seen if g == f]
        if ok:
            if delivered != [repr({"x": int(lit)})] or resp != {"data": {f: "ran"}}:
                out["violations"].append({"signature": "sdl-default-not-delivered|Int|sdl-literal|int", "summary": "SDL default %s of %s: resolver saw %r, response %r" % (lit, f, delivered, resp),
                                          "replay": {"scalar": "Int", "mode": "sdl-defaults"}})
        elif delivered or not resp.get("errors"):
            out["violations"].append({"signature": "out-of-range-delivered|Int|sdl-literal|int", "summary": "out-of-range Int written in the SDL (%s): resolver saw %r, response %r" % (f, delivered, resp),
                                      "replay": {"scalar": "Int", "mode": "sdl-defaults"}})
    harness.forget(name)


def run_shard(item):
    mode, scalar = item[0], item[1]
    global VALUES
    if len(item) > 2 and item[2] == "thorough" and len(VALUES) < 300:
        VALUES = thorough_values()
    out = {"counts": {"evaluations": 0, "triples": 0}, "tables": {"l1": {}, "l2": {}}, "sets": {}, "samples": [],
           "violations": [], "machinery": []}
    eng = _engine()

    def viol(clause, direction, v, got, extra=""):
        vc = type(v).__name__
        out["violations"].append({
            "signature": "%s|%s|%s|%s" % (clause, scalar, direction, vc),
            "summary": "%s: %s %s(%r) -> %r %s" % (clause, scalar, direction, v, got, extra),
            "replay": {"scalar": scalar, "mode": mode}})

    def tab(name, key):
        out["tables"][name][key] = out["tables"][name].get(key, 0) + 1

    if mode == "sdl-defaults":
        run_sdl_defaults(out)
        return out
    if mode == "direct":
        st = scalar_object(eng, scalar)
        for raw in VALUES:
            # ---- L1 + L4 on results ----
            x = make(raw)
            out["counts"]["evaluations"] += 1
            out["counts"]["triples"] += 1
            try:
                r = st.coerce_output(x)
                failed = False
            except Exception:
                failed = True
            if not failed and x is not None:
                tab("l1", "produced")
                clause = l1_ok(scalar, x, r)
                if clause:
                    viol(clause, "result", x, r)
                elif scalar in ("Int", "Float", "String", "Boolean", "ID"):
                    # L4 idempotence: a produced result fed back yields the same value
                    try:
                        back = st.coerce_input(r)
                        if type(back) is not type(r) or back != r:
                            viol("idempotence-input", "result->input", x, back, "(result was %r)" % (r,))
                    except Exception as e:
                        viol("idempotence-input-rejects-own-result", "result->input", x, repr(e), "(result was %r)" % (r,))
                    try:
                        again = st.coerce_output(r)
                        if type(again) is not type(r) or again != r:
                            viol("idempotence-output", "result->result", x, again, "(result was %r)" % (r,))
                    except Exception as e:
                        viol("idempotence-output-rejects-own-result", "result->result", x, repr(e), "(result was %r)" % (r,))
                else:
                    # temporal: in(out(t)) == t at the scalar's resolution for datetime t
                    if type(x) is dt.datetime and x.tzinfo is None and x.microsecond == 0:
                        try:
                            back = st.coerce_input(r)
                        except Exception as e:
                            back = repr(e)
                        want = {"Date": x.replace(hour=0, minute=0, second=0), "Time": x.replace(year=1900, month=1, day=1),
                                "DateTime": x}[scalar]
                        if back != want:
                            viol("temporal-roundtrip-in-out", "result->input", x, back, "(result was %r)" % (r,))
            else:
                tab("l1", "failed")
            # ---- L2 input ----  (Decimal / Fraction are resolver-side values; as *inputs* they are outside the JSON kinds the
            # statement speaks of)
            v = make(raw)
            out["counts"]["evaluations"] += 1
            out["counts"]["triples"] += 1
            if v is not None and not isinstance(v, (Decimal, Fraction)):
                try:
                    got = st.coerce_input(v)
                except Exception:
                    got = C.INVALID
                exp = l2_expected(scalar, v)
                if exp is not None and repr(_t(got)) not in exp:
                    viol("input-accepts-wrong-kind" if got is not C.INVALID else "input-rejects-valid-kind", "input", v, got, "expected one of %s" % sorted(exp))
                tab("l2", "accepted" if got is not C.INVALID else "rejected")
                # temporal: out(in(s)) == s for well-formed s
                if scalar in ("Date", "Time", "DateTime") and got is not C.INVALID and canonical(scalar, v):
                    try:
                        s2 = st.coerce_output(got)
                    except Exception as e:
                        s2 = repr(e)
                    if s2 != v:
                        viol("temporal-roundtrip-out-in", "input->result", v, s2)
            # ---- L3 literal == variable (on the scalar object) ----
            lit = literal_for(raw) if not isinstance(raw, type) else None
            if lit is not None and not (scalar == "ID" and raw == 0 and isinstance(raw, float)):
                out["counts"]["evaluations"] += 1
                out["counts"]["triples"] += 1
                _l3(st, scalar, lit, raw, viol)
        for lit, raw in EXTRA_LITERALS:
            out["counts"]["evaluations"] += 1
            _l3(st, scalar, lit, raw, viol)
        out["samples"].append({"scalar": scalar, "directions": ["result", "input", "literal"], "values": [repr(v) for v in VALUES[:6]] + [repr(VALUES[-1])]})
    else:
        # through a real engine: resolver return (o_X), literal spelling and variable spelling (i_X)
        for raw in VALUES:
            x = make(raw)
            if x is None or isinstance(x, Exception):  # exception instances as values are treated as raises (C02 / C03)
                continue
            fname = "o_" + scalar
            scn = Scenario(root={}, overrides={(fname,): x})
            out["counts"]["evaluations"] += 1
            resp = harness.execute(eng, "{ %s }" % fname, scn)
            st = scalar_object(eng, scalar)
            try:
                direct = ("ok", st.coerce_output(x))
            except Exception:
                direct = ("fail",)
            if direct[0] == "ok":
                good = resp.get("data") is not None and _same(resp["data"].get(fname), direct[1]) and not resp.get("errors")
            else:
                good = resp.get("data") == {fname: None} and bool(resp.get("errors"))
            if not good:
                viol("engine-result-differs-from-scalar", "result", x, resp, "direct=%r" % (direct,))
            lit = literal_for(raw) if not isinstance(raw, type) else None
            if lit is None or (isinstance(raw, float) and raw == 0):
                continue
            if scalar in ("Int", "ID") and isinstance(raw, float):
                continue  # DC1: an integral JSON float has no literal twin for Int / ID
            iname = "i_" + scalar
            scn = Scenario(root={})
            out["counts"]["evaluations"] += 2
            r_lit = harness.execute(eng, "{ %s(x: %s) }" % (iname, S.value_str(lit)), scn)
            log_lit = list(scn.log)
            r_var = harness.execute(eng, "query($v: %s) { %s(x: $v) }" % (scalar, iname), scn, variables={"v": raw})
            log_var = list(scn.log)
            acc_lit = bool(log_lit)
            acc_var = bool(log_var)
            if acc_lit != acc_var:
                viol("literal-variable-acceptance-differs", "engine-literal-vs-variable", raw, (r_lit, r_var))
            elif acc_lit and log_lit[0][2] != log_var[0][2]:
                viol("literal-variable-value-differs", "engine-literal-vs-variable", raw, (log_lit[0][2], log_var[0][2]))
            exp = l2_expected(scalar, raw) or set()
            if acc_var != (repr(_t(C.INVALID)) not in exp or len(exp) > 1) and len(exp) == 1:
                viol("engine-variable-acceptance", "engine-variable", raw, r_var, "expected %s" % sorted(exp))
        out["samples"].append({"scalar": scalar, "through": "engine echo fields", "spellings": ["resolver return", "literal", "variable"]})
    return out


def _same(a, b):
    return type(a) is type(b) and a == b


def _l3(st, scalar, lit, raw, viol):
    from tartiflette.language.ast import BooleanValueNode, FloatValueNode, IntValueNode, StringValueNode
    from tartiflette.constants import UNDEFINED_VALUE
    node = {IntV: lambda: IntValueNode(value=lit.text, location=None), FloatV: lambda: FloatValueNode(value=lit.text, location=None),
            StrV: lambda: StringValueNode(value=lit.value, location=None), BoolV: lambda: BooleanValueNode(value=lit.value, location=None)}[type(lit)]()
    try:
        a = st.parse_literal(node)
        if a is UNDEFINED_VALUE:
            a = C.INVALID
    except Exception:
        a = C.INVALID
    try:
        b = st.coerce_input(raw)
    except Exception:
        b = C.INVALID
    if (a is C.INVALID) != (b is C.INVALID):
        # DC1: an Int literal for Float has JSON twin int: both accepted. integral float variable for Int / ID is a don't-care.
        if scalar in ("Int", "ID") and isinstance(raw, float):
            return
        viol("literal-variable-acceptance-differs", "literal-vs-variable", raw, (a, b), "literal %s" % S.value_str(lit))
    elif a is not C.INVALID and (type(a) is not type(b) or a != b):
        viol("literal-variable-value-differs", "literal-vs-variable", raw, (a, b), "literal %s" % S.value_str(lit))
    elif a is not C.INVALID and scalar == "Float" and not math.isfinite(a):
        viol("input-accepts-non-finite-float", "literal", raw, a, "literal %s" % S.value_str(lit))


def finish(agg, tier):
    c = agg.counts
    return {
        "states": c.get("triples", 0),
        "transitions": c.get("evaluations", 0),
        "traces_validated_against_impl": c.get("evaluations", 0),
        "evaluations": c.get("evaluations", 0),
        "distinct_nontrivial": sum(agg.tables.get("l1", {}).get(k, 0) for k in ("produced",)) + agg.tables.get("l2", {}).get("accepted", 0),
        "rule": "a state = (scalar, direction in {result, input, literal}, value) over %d boundary values x 8 scalars, evaluated on "
                "the scalar objects attached to a cooked schema and again through echo fields of a real engine (resolver return, "
                "literal spelling, variable spelling). non-trivial = triples where coercion produced / accepted a value (the laws "
                "constrain the produced value; rejected triples only need to be rejected)" % len(VALUES),
        "exhaustive": True,
    }


def replay(rec):
    r = rec["replay"]
    return run_shard((r["mode"], r["scalar"], "thorough"))["violations"]
