"""C08 — results do not depend on resolver scheduling or concurrency settings (DESIGN 4/C08, engine E3).

Stateless model checking of the real engine: for every request of the pool (also with every single fault), under the
2x2x2 concurrency configurations plus a mixed per-field configuration, ALL completion orders of the suspended
resolvers are executed on a hand-stepped event loop, plus every single mid-run injection (thorough: two).
"""
import json

from vf import doc, explore, harness, sched, seeds
from vf.data import Scenario, build_root
from vf.model import execute as X
from vf.props import c02

from tartiflette.resolver.default import gather_arguments_coercer, sync_arguments_coercer

PROPERTY = "C08"
LEVEL = "model_checking"
ASSUMPTIONS = ["resolvers are pure and suspend once (one scheduling point each)",
               "callback-level scheduling of one asyncio loop; threads / cancellation from outside are not modelled"]
BUDGET_S = {"quick": 600, "thorough": 3000}

REQUESTS = [
    "{ num color a { id } }",
    "{ a { id name a } b { b tags } }",
    "{ nodes { id name } }",
    "{ a { id } a { name } x: num }",
    "{ node { id ... on A { a } ... on B { b strict } } }",
    "{ pets { __typename ... on A { a } ... on C { c } } ints }",
    "{ hello(n: 1, p: {a: 2}) need(x: 3) }",
    "{ a { peer { id } pets { ... on A { id } } } }",
    "{ matrix b { strict } }",
    "{ c { node { id } } num }",
    "{ b { tags strict } nodes { id } }",
    "query Q($s: Boolean!) { num @skip(if: $s) color a @include(if: $s) { a } }",
    "{ two(a: 1, b: 2) num }",
    "query Q($s: Boolean!) { alist { id name @include(if: $s) } }",
    "{ a { peer { ... on A { peer { id } } } } num }",
    "{ color tag ints num }",
    "{ a { name } b { strict } num }",
]
# requests explored with every *pair* of independent failing points as well (a nullable failure in one sub-tree, a failure that
# propagates in another: the errors of one must not depend on when the other completes)
PAIR_REQUESTS = {"{ a { name } b { strict } num }"}
PAIR_SPLIT = 3
SELF_NESTED = "{ a { peer { ... on A { peer { id } } } } num }"
SUSPEND_HOOKS = {"{ two(a: 1, b: 2) num }"}
MAX_I = {"quick": 1, "thorough": 2}
CAP = {"quick": 60000, "thorough": 400000}


def configs():
    out = []
    for lc in (True, False):
        for pc in (True, False):
            for ac in ("gather", "sync"):
                out.append({"label": "list=%s parent=%s args=%s" % (lc, pc, ac), "lc": lc, "pc": pc, "ac": ac, "mixed": False})
    out.append({"label": "mixed per-field", "lc": True, "pc": True, "ac": "gather", "mixed": True})
    return out


def engine_for(ci):
    cfg = configs()[ci]
    schema = seeds.K
    typecfg = {"resolver_kwargs_all": {"list_concurrently": cfg["lc"], "parent_concurrently": cfg["pc"]}}
    if cfg["mixed"]:
        per = {}
        n = 0
        for td in schema.types:
            if td.kind == "OBJECT":
                for f in td.fields:
                    n += 1
                    per["%s.%s" % (td.name, f.name)] = {"parent_concurrently": n % 2 == 0, "list_concurrently": n % 3 != 0}
        typecfg = {"resolver_kwargs": per}
    kw = {"custom_default_arguments_coercer": sync_arguments_coercer if cfg["ac"] == "sync" else gather_arguments_coercer,
          "coerce_list_concurrently": cfg["lc"], "coerce_parent_concurrently": cfg["pc"]}
    return explore.engine_for(("C08", ci), schema, typecfg=typecfg, **kw)


def shards(tier, seed):
    items = []
    for ri in range(len(REQUESTS)):
        for ci in range(len(configs())):
            items.append((ri, ci, tier))
            if REQUESTS[ri] in PAIR_REQUESTS:
                for k in range(PAIR_SPLIT):
                    items.append((ri, ci, tier, k))
    return items


_LOOP = [None]


def vloop():
    if _LOOP[0] is None:
        _LOOP[0] = sched.VLoop()
    return _LOOP[0]


def observe(ex, scn):
    r = ex.result
    errs = sorted(explore.path_of(e) for e in (r.get("errors") or [])) if isinstance(r, dict) else None
    return (ex.status, json.dumps(r.get("data") if isinstance(r, dict) else repr(r), sort_keys=False, default=repr), tuple(errs or ()))


def explore_request(engine, schema, text, located, variables, root, faults, fault_values, tier, out, label, cfg_label,
                    suspend_hooks=False, max_i=None):
    scn = Scenario(root=root, faults=faults, fault_values=fault_values)
    scn.suspend_hooks = suspend_hooks
    exp = X.execute_request(schema, located, None, variables, scn)
    loop = vloop()
    state = {"n": 0, "outcomes": {}, "viol": None, "nontrivial": 0}

    def make_task(s):
        scn.reset()
        scn.sched = s
        harness.CURRENT[0] = scn
        return engine.execute(text, context=scn, variables=variables, initial_value=scn.root)

    def on(ex):
        state["n"] += 1
        if any(c for c in ex.choices):
            state["nontrivial"] += 1
        clause = None
        r = ex.result
        if ex.status != "ok":
            clause = ex.status
        elif not isinstance(r, dict) or "data" not in r:
            clause = "envelope"
        else:
            clause = c02.judge(exp, r, faults)
            if clause is None:
                starts = [e[1] for e in scn.events if e[0] == "start"]
                finishes = [e[1] for e in scn.events if e[0] == "finish"]
                if len(set(starts)) != len(starts):
                    clause = "resolver-started-twice"
                elif sorted(starts) != sorted(finishes):
                    clause = "resolver-started-but-not-finished"
                elif ex.pending_at_end:
                    clause = "pending-resolver-when-execute-returned"
                elif ex.leftover_tasks:
                    clause = "live-task-when-execute-returned"
                else:
                    want = sorted(p for p, _, _ in exp.calls)
                    propagated = any(n not in exp.failures for n in exp.nulled)
                    if propagated:  # DC8: after a non-null failure later (sequential) siblings may be skipped
                        if not set(starts) <= set(want):
                            clause = "resolver-set-differs"
                    elif sorted(starts) != want:
                        clause = "resolver-set-differs"
                    elif sorted(scn.log) != sorted(exp.calls):
                        clause = "resolver-arguments-differ"
        key = observe(ex, scn)
        state["outcomes"][key] = state["outcomes"].get(key, 0) + 1
        if clause and state["viol"] is None:
            state["viol"] = (clause, list(ex.choices), r if ex.status == "ok" else repr(ex.exception))

    st = sched.explore(loop, make_task, on, max_i=MAX_I[tier] if max_i is None else max_i, max_executions=CAP[tier])
    out["counts"]["schedules"] += st["executions"]
    out["counts"]["choice_points"] += st["choice_points"]
    out["counts"]["nontrivial_schedules"] += state["nontrivial"]
    out["counts"]["requests"] += 1
    if st["capped"]:
        out["caps"].append("schedule cap %d reached for %s [%s]" % (CAP[tier], label, cfg_label))
    out["tables"]["distinct_outcomes_per_request"][str(len(state["outcomes"]))] = \
        out["tables"]["distinct_outcomes_per_request"].get(str(len(state["outcomes"])), 0) + 1
    if state["viol"] is None and len(state["outcomes"]) > 1:
        state["viol"] = ("response-depends-on-schedule", [], list(state["outcomes"])[:2])
    if state["viol"]:
        clause, choices, got = state["viol"]
        out["violations"].append({
            "signature": "%s|%s" % (clause, "fault" if faults else "plain"),
            "summary": "%s: %s [%s] faults=%r schedule=%r -> %r (expected data %r)" % (
                clause, text, cfg_label, {str(k): v for k, v in faults.items()}, choices, got, exp.data),
            "replay": {"text": text, "variables": variables, "config": cfg_label, "faults": [[list(p), f] for p, f in faults.items()],
                       "choices": choices}})
    return st["executions"], exp


def run_shard(item):
    ri, ci, tier = item[:3]
    pair_part = item[3] if len(item) > 3 else None
    out = {"counts": {"schedules": 0, "choice_points": 0, "requests": 0, "nontrivial_schedules": 0, "determinism_checks": 0},
           "tables": {"distinct_outcomes_per_request": {}}, "sets": {}, "samples": [], "violations": [], "machinery": [], "caps": []}
    schema = seeds.K
    engine = engine_for(ci)
    cfg = configs()[ci]
    text = REQUESTS[ri]
    text, located = doc.roundtrip(doc.parse(text))
    root = build_root(schema, "Query", 1)
    a1, a2, a3 = (build_root(schema, "A", v, depth=1) for v in (5, 6, 7))
    root = dict(root)
    root["alist"] = [a1, a2]  # a homogeneous list: the items share one runtime type (and one collected sub-selection)
    # the same Type.field nested below itself: a -> A.peer (an A) -> A.peer
    inner = dict(build_root(schema, "A", 9, depth=1), peer=dict(build_root(schema, "A", 8, depth=0) or {"id": "deep", "_typename": "A"}))
    top = dict(build_root(schema, "A", 10, depth=1))
    top["peer"] = inner
    if REQUESTS[ri] == SELF_NESTED:
        root["a"] = top
    varsets = [None]
    if located.operations[0].vars:
        varsets = [{"s": True}, {"s": False}]
    for variables in varsets:
        if pair_part is not None:
            # pairs of failing points in two different root sub-trees (a point inside the region that the other failure nulls is left to the
            # single faults: after a non-null failure the later sequential siblings may legitimately be skipped, DC8)
            points, _ = c02.reach_points(schema, located, None, variables, root)
            pts = [p for p, fd in points.items() if fd is not None]
            region = {}
            for p in pts:  # the positions a failure at p makes null (its own, or the nullable ancestor it propagates to)
                e1 = X.execute_request(schema, located, None, variables, Scenario(root=root, faults={p: "raise"}, fault_values={}))
                region[p] = [tuple(n) for n in e1.nulled] if e1.data is not None else [()]
            inside = lambda q, p: any(q[:len(n)] == n for n in region[p])
            pairs = [(p, q) for i, p in enumerate(pts) for q in pts[i + 1:] if p[0] != q[0] and not inside(q, p) and not inside(p, q)]
            for n, (p, q) in enumerate(pairs):
                if n % PAIR_SPLIT != pair_part:
                    continue
                explore_request(engine, schema, text, located, variables, root, {p: "raise", q: "raise"}, {}, "quick", out, text, cfg["label"])
                out["counts"]["fault_pairs"] = out["counts"].get("fault_pairs", 0) + 1
            continue
        n, exp = explore_request(engine, schema, text, located, variables, root, {}, {}, tier, out, text, cfg["label"],
                                 suspend_hooks=REQUESTS[ri] in SUSPEND_HOOKS)
        # every single fault of the C02 kinds {raise, null} at every reachable point
        points, _ = c02.reach_points(schema, located, None, variables, root)
        for p, fd in points.items():
            if fd is None:
                continue
            for fault in ("raise", "none"):
                explore_request(engine, schema, text, located, variables, root, {p: fault}, {}, "quick", out, text, cfg["label"])
            # a null *item* of a list (first / last): lists are completed concurrently or one by one
            for label, fault, value in c02.kinds_for(schema, fd, c02.NATURAL.get(p)):
                if label in ("nonlist-empty-string", "nonlist-zero", "nonlist-empty-tuple"):
                    # a falsy value that is not a list: refused whether the items would have been gathered or completed in turn
                    explore_request(engine, schema, text, located, variables, root, {p: fault}, {p: value}, "quick", out, text, cfg["label"])
                if label in ("item-null-first", "item-null-last", "item-null-at-137-of-150"):
                    # (the 150-item list: all completion orders, no injections -- every item adds callback gaps)
                    explore_request(engine, schema, text, located, variables, root, {p: fault}, {p: value}, "quick", out, text, cfg["label"],
                                    max_i=0 if "150" in label else None)
    if pair_part is not None:
        return out
    # determinism self-check: replay one non-default schedule twice
    loop = vloop()
    scn = Scenario(root=root)

    def make_task(s):
        scn.reset()
        scn.sched = s
        harness.CURRENT[0] = scn
        return engine.execute(text, context=scn, variables=varsets[0], initial_value=scn.root)

    probe = sched.run_one(loop, make_task, [])
    choices = [(n - 1 if kind == "E" else 0) for kind, n, c in probe.trace]
    try:
        same, a, b = sched.replay_twice(loop, make_task, _valid_prefix(loop, make_task, choices), lambda ex: (ex.status, json.dumps(ex.result, default=repr), tuple(ex.sched.log)))
        out["counts"]["determinism_checks"] += 1
        if not same:
            out["machinery"].append("replaying one schedule twice gave different observations for " + text)
    except sched.ReplayDivergence as e:
        out["machinery"].append("replay divergence: %s" % e)
    if ci == 0:
        out["samples"].append({"request": text, "config": cfg["label"], "schedules": out["counts"]["schedules"],
                               "example_schedule": choices[:12]})
    return out


def _valid_prefix(loop, make_task, choices):
    """longest prefix of `choices` that replays (choices taken from another schedule may not fit)"""
    good = []
    for c in choices:
        try:
            sched.run_one(loop, make_task, good + [c])
            good.append(c)
        except sched.ReplayDivergence:
            break
    return good


def finish(agg, tier):
    c = agg.counts
    return {
        "states": c.get("schedules", 0),
        "transitions": c.get("choice_points", 0),
        "traces_validated_against_impl": c.get("schedules", 0),
        "evaluations": c.get("schedules", 0),
        "distinct_nontrivial": c.get("nontrivial_schedules", 0),
        "rule": "states = complete schedules executed on the real engine (the model is the implementation); for each of %d requests "
                "(and each single raise/null fault at every reachable field) x 9 concurrency configurations, ALL completion orders of "
                "the suspended resolvers are enumerated, plus every schedule with <= %d mid-run injection(s) at any callback gap. "
                "non-trivial = schedules deviating from FIFO completion. Each schedule's response is compared with E5 and with every "
                "other schedule; start/finish discipline, no pending future, no live task, no deadlock/livelock"
                % (len(REQUESTS), MAX_I[tier]),
        "bounds": {"E_deviations": "unbounded (all linear extensions)", "I_deviations": MAX_I[tier], "schedule_cap_per_request": CAP[tier]},
        "exhaustive": True,
    }


def replay(rec):
    r = rec["replay"]
    schema = seeds.K
    ci = [c["label"] for c in configs()].index(r["config"])
    engine = engine_for(ci)
    located = doc.parse(r["text"])
    root = build_root(schema, "Query", 1)
    faults = {tuple(p): f for p, f in r["faults"]}
    out = {"counts": {"schedules": 0, "choice_points": 0, "requests": 0, "nontrivial_schedules": 0},
           "tables": {"distinct_outcomes_per_request": {}}, "violations": [], "caps": []}
    explore_request(engine, schema, r["text"], located, r["variables"], root, faults, {}, "quick", out, r["text"], r["config"])
    return out["violations"]
