"""C13 — directive hooks wrap their target exactly once, nested in declaration order (DESIGN 4/C13).

Every placement of <= 3 tagging directive instances over 12 attachable location kinds (multisets, so two or three on
one element are included) plus the all-locations schema; x requests supplying the argument as literal / variable /
nested variable, query-side field directives, object / interface / union / enum results.  Hooks are non-commuting
taggers writing an enter/exit log; E5's composition model predicts both the final value and the log.
"""
import itertools
import json

from vf import boot  # noqa: F401
from vf import explore, harness
from vf.data import Scenario

from tartiflette import Directive, Resolver, Scalar, create_engine

PROPERTY = "C13"
LEVEL = "model_checking"
ASSUMPTIONS = ["DC4: relative order of enum-value and enum-type hooks is free", "DC13: relative order of abstract-type and object-type output hooks is free",
               "one argument per request (sibling arguments are coerced concurrently)"]
BUDGET_S = {"quick": 600, "thorough": 1800}
MAXDIR = {"quick": 4, "thorough": 5}

LOCS = ["SCHEMA", "SCALAR", "OBJECT", "FIELD_DEFINITION", "ARGUMENT_DEFINITION", "INTERFACE", "UNION", "ENUM", "ENUM_VALUE",
        "INPUT_OBJECT", "INPUT_FIELD_DEFINITION", "QUERY_FIELD"]
ALL_LOCATIONS = "SCHEMA | SCALAR | OBJECT | FIELD_DEFINITION | ARGUMENT_DEFINITION | INTERFACE | UNION | ENUM | ENUM_VALUE | INPUT_OBJECT | INPUT_FIELD_DEFINITION | FIELD"
NDIR = 7


def dirs_text(placement, loc):
    """placement: tuple of location names, instance k uses directive @t{k+1}(id: "<k>")"""
    return "".join(' @t%d(id: "%s%d")' % (k + 1, loc[:2].lower(), k) for k, l in enumerate(placement) if l == loc)


def ids(placement, loc):
    return ["%s%d" % (loc[:2].lower(), k) for k, l in enumerate(placement) if l == loc]


EXTENDABLE = {"SCALAR": "scalar Tag", "ENUM": "enum E", "INPUT_OBJECT": "input I", "INTERFACE": "interface N", "OBJECT": "type O", "UNION": "union U"}


def sdl_for(p):
    # placements of odd size: at the type-level locations only the first directive stays on the definition, the others are added by an
    # `extend` block (declaration order: definition first, then the extension)
    split = len(p) % 2 == 1
    exts = []

    def d(loc):
        text = dirs_text(p, loc)
        if split and loc in EXTENDABLE and text.count(" @t") >= 2:
            cut = text.index(" @t", 1)
            exts.append("extend %s%s" % (EXTENDABLE[loc], text[cut:]))
            return text[:cut]
        return text
    return _sdl_body(d) + "\n".join(exts) + "\n"


def _sdl_body(d):
    return """
%s
scalar Tag%s
enum E%s { ONE%s TWO }
input I%s { a: Tag = "v"%s e: E }
input W { i: I is: [I] }
interface N%s { s: Tag tags: String }
type O implements N%s { s: Tag tags: String e: E h(y: Tag%s): Tag }
union U%s = O
type Query {
  f(x: I%s, y: Tag): Tag%s
  g(y: Tag%s): Tag
  d(x: I = {a: "v"}%s): Tag
  w(x: W): Tag
  o: O
  os: [O]
  n: N
  u: U
  en(v: E): E
}
schema%s { query: Query }
""" % ("\n".join("directive @t%d(id: String!) on %s" % (k + 1, ALL_LOCATIONS) for k in range(NDIR)),
       d("SCALAR"), d("ENUM"), d("ENUM_VALUE"), d("INPUT_OBJECT"), d("INPUT_FIELD_DEFINITION"), d("INTERFACE"), d("OBJECT"),
       d("ARGUMENT_DEFINITION"), d("UNION"),
       d("ARGUMENT_DEFINITION"), d("FIELD_DEFINITION"), d("ARGUMENT_DEFINITION"), d("ARGUMENT_DEFINITION"), d("SCHEMA"))


def tag_value(v, mark):
    if isinstance(v, dict):
        d = dict(v)
        d["_tags"] = d.get("_tags", "") + mark
        return d
    if isinstance(v, str) and v not in ("ONE", "TWO"):
        return v + mark
    return v


class Tagger:
    """all hook kinds; non-commuting: tags on the way in and on the way out, logs enter / exit"""

    def _log(self, ctx, directive_args, kind, phase):
        scn = harness.scenario_of(ctx)
        scn.events.append((directive_args["id"], kind, phase))
        if phase == "enter" and getattr(scn, "reject", None) == (directive_args["id"], kind):
            raise ValueError("rejected by %s in its %s hook" % (directive_args["id"], kind))

    async def on_argument_execution(self, directive_args, next_directive, parent_node, argument_definition_node, argument_node, value, ctx):
        i = directive_args["id"]
        self._log(ctx, directive_args, "argument", "enter")
        r = await next_directive(parent_node, argument_definition_node, argument_node, tag_value(value, "|%s<" % i), ctx)
        self._log(ctx, directive_args, "argument", "exit")
        return tag_value(r, "|%s>" % i)

    async def on_post_input_coercion(self, directive_args, next_directive, parent_node, value, ctx):
        i = directive_args["id"]
        self._log(ctx, directive_args, "input", "enter")
        r = await next_directive(parent_node, tag_value(value, "|%s<" % i), ctx)
        self._log(ctx, directive_args, "input", "exit")
        return tag_value(r, "|%s>" % i)

    async def on_field_execution(self, directive_args, next_resolver, parent, args, ctx, info):
        i = directive_args["id"]
        self._log(ctx, directive_args, "field", "enter")
        r = await next_resolver(parent, args, ctx, info)
        self._log(ctx, directive_args, "field", "exit")
        return tag_value(r, "|%s>" % i)

    async def on_pre_output_coercion(self, directive_args, next_directive, value, ctx, info):
        i = directive_args["id"]
        self._log(ctx, directive_args, "output", "enter")
        r = await next_directive(tag_value(value, "|%s<" % i), ctx, info)
        self._log(ctx, directive_args, "output", "exit")
        return tag_value(r, "|%s>" % i)

    async def on_schema_execution(self, directive_args, next_directive, schema, document, parsing_errors, operation_name, context, variables,
                                  initial_value):
        self._log(context, directive_args, "schema", "enter")
        r = await next_directive(schema, document, parsing_errors, operation_name, context, variables, initial_value)
        self._log(context, directive_args, "schema", "exit")
        return r


class _AsyncCallable:
    """a hook given as a callable *object* whose __call__ is a coroutine function (not a function, not a bound method)"""

    def __init__(self, bound):
        self._bound = bound

    async def __call__(self, *a, **k):
        return await self._bound(*a, **k)


def callable_object_tagger():
    """the same hooks as Tagger, each one an attribute holding an _AsyncCallable"""
    base = Tagger()
    attrs = {name: _AsyncCallable(getattr(base, name)) for name in dir(Tagger) if name.startswith("on_")}
    return type("CallableObjectTagger", (), attrs)()


class TagScalar:
    def coerce_output(self, v):
        return "out:" + str(v)

    def coerce_input(self, v):
        if not isinstance(v, str):
            raise TypeError("Tag")
        return "T:" + v

    def parse_literal(self, ast):
        return "T:" + ast.value


def render(v):
    if isinstance(v, dict):
        return "{a=%s;tags=%s}" % (v.get("a"), v.get("_tags", ""))
    return str(v)


def render_w(v):
    return "W{i=%s;is=%s}" % (render(v["i"]) if "i" in v else "-", "[%s]" % ",".join(render(x) for x in v["is"]) if "is" in v else "-")


def build(p):
    name = harness.fresh_name("c13")
    for k in range(NDIR):
        # every other directive implements its hooks as callable objects instead of async methods
        Directive("t%d" % (k + 1), schema_name=name)(Tagger() if k % 2 else callable_object_tagger())
    Scalar("Tag", schema_name=name)(TagScalar())

    @Resolver("Query.f", schema_name=name)
    async def rf(parent, args, ctx, info):
        harness.scenario_of(ctx).events.append(("resolver", "f", "call"))
        return render(args.get("x", args.get("y")))

    @Resolver("Query.g", schema_name=name)
    async def rg(parent, args, ctx, info):
        harness.scenario_of(ctx).events.append(("resolver", "g", "call"))
        return render(args.get("y"))

    @Resolver("Query.d", schema_name=name)
    async def rd(parent, args, ctx, info):
        harness.scenario_of(ctx).events.append(("resolver", "d", "call"))
        return render(args.get("x"))

    @Resolver("Query.w", schema_name=name)
    async def rw(parent, args, ctx, info):
        harness.scenario_of(ctx).events.append(("resolver", "w", "call"))
        return render_w(args.get("x"))

    @Resolver("Query.en", schema_name=name)
    async def ren(parent, args, ctx, info):
        harness.scenario_of(ctx).events.append(("resolver", "en", "call"))
        return args.get("v")

    for fq in ("Query.o", "Query.n", "Query.u"):
        def mk(fq):
            async def r(parent, args, ctx, info):
                harness.scenario_of(ctx).events.append(("resolver", fq.split(".")[1], "call"))
                return {"_typename": "O", "s": "sv", "e": "ONE"}
            return r
        Resolver(fq, schema_name=name)(mk(fq))

    # a list whose items are completed one after the other: the same field node is executed once per parent, at different times
    @Resolver("Query.os", schema_name=name, list_concurrently=False)
    async def r_os(parent, args, ctx, info):
        harness.scenario_of(ctx).events.append(("resolver", "os", "call"))
        return [{"_typename": "O", "s": "s0"}, {"_typename": "O", "s": "s1"}]

    @Resolver("O.h", schema_name=name)
    async def r_h(parent, args, ctx, info):
        harness.scenario_of(ctx).events.append(("resolver", "h", "call"))
        return render(args.get("y"))

    @Resolver("O.tags", schema_name=name)
    async def rtags(parent, args, ctx, info):
        return parent.get("_tags", "")

    eng = harness.run(create_engine(sdl_for(p), schema_name=name))
    return eng, name


# ---- E5: composition model ------------------------------------------------------------------------------------------------------
def compose(v, id_list):
    for i in id_list:
        v = tag_value(v, "|%s<" % i)
    for i in reversed(id_list):
        v = tag_value(v, "|%s>" % i)
    return v


def nest(id_list, kind, inner=()):
    return [(i, kind, "enter") for i in id_list] + list(inner) + [(i, kind, "exit") for i in reversed(id_list)]


def expected(p, req):
    """-> (set of admissible data values, list of admissible logs)"""
    I = lambda loc: ids(p, loc)  # noqa: E731
    kind = req["kind"]
    q = req.get("query_dirs", [])
    if kind in ("x-literal", "x-variable", "x-nested-variable", "x-default"):
        fname = req.get("field", "f")
        fdirs = I("FIELD_DEFINITION") if fname == "f" else []
        leaf = compose("T:v", I("SCALAR"))
        leaf = compose(leaf, I("INPUT_FIELD_DEFINITION"))
        obj = compose({"a": leaf}, I("INPUT_OBJECT"))
        obj = compose(obj, I("ARGUMENT_DEFINITION"))
        r = render(obj)
        for i in reversed(q + fdirs):
            r = tag_value(r, "|%s>" % i)
        out = "out:" + compose(r, I("SCALAR"))
        log = (nest(I("SCALAR"), "input") + nest(I("INPUT_FIELD_DEFINITION"), "input") + nest(I("INPUT_OBJECT"), "input")
               + nest(I("ARGUMENT_DEFINITION"), "argument") + nest(q + fdirs, "field", [("resolver", fname, "call")])
               + nest(I("SCALAR"), "output"))
        return [{fname: out}], [nest(I("SCHEMA"), "schema", log)]
    if kind in ("w-object", "w-list"):
        # an I nested in another input object, directly or as a list item, written out or supplied through a variable of type I: the
        # type-level and field-level hooks of I run once for it either way
        leaf = compose(compose("T:v", I("SCALAR")), I("INPUT_FIELD_DEFINITION"))
        obj = compose({"a": leaf}, I("INPUT_OBJECT"))
        r = render_w({"i": obj} if kind == "w-object" else {"is": [obj]})
        out = "out:" + compose(r, I("SCALAR"))
        log = (nest(I("SCALAR"), "input") + nest(I("INPUT_FIELD_DEFINITION"), "input") + nest(I("INPUT_OBJECT"), "input")
               + [("resolver", "w", "call")] + nest(I("SCALAR"), "output"))
        return [{"w": out}], [nest(I("SCHEMA"), "schema", log)]
    if kind in ("y-literal", "y-variable"):
        fname = req["field"]
        leaf = compose("T:w", I("SCALAR"))
        arg_ids = I("ARGUMENT_DEFINITION") if fname == "g" else []
        leaf = compose(leaf, arg_ids)
        r = render(leaf)
        fdirs = I("FIELD_DEFINITION") if fname == "f" else []
        for i in reversed(q + fdirs):
            r = tag_value(r, "|%s>" % i)
        out = "out:" + compose(r, I("SCALAR"))
        log = (nest(I("SCALAR"), "input") + nest(arg_ids, "argument") + nest(q + fdirs, "field", [("resolver", fname, "call")])
               + nest(I("SCALAR"), "output"))
        return [{fname: out}], [nest(I("SCHEMA"), "schema", log)]
    if kind in ("object", "interface", "union"):
        fname = {"object": "o", "interface": "n", "union": "u"}[kind]
        abstract = {"object": [], "interface": I("INTERFACE"), "union": I("UNION")}[kind]
        datas, logs = [], []
        orders = [(abstract, I("OBJECT"))]
        if abstract and I("OBJECT"):
            orders.append((I("OBJECT"), abstract))
        for first, second in orders:
            base = {}
            for i in reversed(q):
                base = tag_value(base, "|%s>" % i)
            tags = compose(compose(base, first), second).get("_tags", "")
            s = "out:" + compose("sv", I("SCALAR"))
            sel = {"s": s, "tags": tags}
            datas.append({fname: sel})
            inner = nest(first, "output") + nest(second, "output") + nest(I("SCALAR"), "output")
            logs.append(nest(I("SCHEMA"), "schema", nest(q, "field", [("resolver", fname, "call")]) + inner))
        return datas, logs
    if kind in ("list-literal", "list-variable"):
        # every item of `os` executes the same field node `h`: input-side hooks run once per field execution
        leaf = compose("T:w", I("SCALAR"))
        arg = compose(leaf, I("ARGUMENT_DEFINITION"))
        out = "out:" + compose(render(arg), I("SCALAR"))
        per_item = []
        if kind == "list-literal":
            per_item += nest(I("SCALAR"), "input")
        per_item += nest(I("ARGUMENT_DEFINITION"), "argument") + [("resolver", "h", "call")] + nest(I("SCALAR"), "output")
        log = [("resolver", "os", "call")]
        for _ in range(2):
            log += nest(I("OBJECT"), "output") + per_item
        if kind == "list-variable":
            log = nest(I("SCALAR"), "input") + log
        return [{"os": [{"h": out}, {"h": out}]}], [nest(I("SCHEMA"), "schema", log)]
    if kind == "fragment-spread-twice":
        # `o` selected twice, both selections spreading the same fragment: the fragment's field node is collected once, so the one
        # directive instance written on it wraps the one execution of `h` once
        leaf = compose("T:w", I("SCALAR"))
        arg = compose(leaf, I("ARGUMENT_DEFINITION"))
        r = render(arg)
        for i in reversed(q):
            r = tag_value(r, "|%s>" % i)
        out = "out:" + compose(r, I("SCALAR"))
        log = ([("resolver", "o", "call")] + nest(I("OBJECT"), "output") + nest(I("SCALAR"), "input")
               + nest(I("ARGUMENT_DEFINITION"), "argument") + nest(q, "field", [("resolver", "h", "call")]) + nest(I("SCALAR"), "output"))
        return [{"o": {"h": out}}], [nest(I("SCHEMA"), "schema", log)]
    if kind in ("enum-literal", "enum-variable"):
        datas = [{"en": "ONE"}]
        logs = []
        for inp in ([I("ENUM_VALUE"), I("ENUM")], [I("ENUM"), I("ENUM_VALUE")]):
            for outp in ([I("ENUM_VALUE"), I("ENUM")], [I("ENUM"), I("ENUM_VALUE")]):
                log = (nest(inp[0], "input") + nest(inp[1], "input") + nest(q, "field", [("resolver", "en", "call")])
                       + nest(outp[0], "output") + nest(outp[1], "output"))
                logs.append(nest(I("SCHEMA"), "schema", log))
        return datas, logs
    raise KeyError(kind)


def requests():
    out = []
    for qd in ([], ["q0"], ["q0", "q1"]):
        qtext = "".join(' @t%d(id: "%s")' % (NDIR - i, q) for i, q in enumerate(qd))
        out.append({"kind": "x-literal", "text": '{ f(x: {a: "v"})%s }' % qtext, "vars": None, "query_dirs": qd})
        out.append({"kind": "y-literal", "field": "f", "text": '{ f(y: "w")%s }' % qtext, "vars": None, "query_dirs": qd})
        if not qd:
            out.append({"kind": "x-variable", "text": "query($x: I) { f(x: $x) }", "vars": {"x": {"a": "v"}}, "query_dirs": qd})
            out.append({"kind": "x-nested-variable", "text": "query($a: Tag) { f(x: {a: $a}) }", "vars": {"a": "v"}, "query_dirs": qd})
            out.append({"kind": "y-variable", "field": "f", "text": "query($y: Tag) { f(y: $y) }", "vars": {"y": "w"}, "query_dirs": qd})
            # the input field is omitted and takes its SDL default: same stages as when it is written out, literal and variable alike
            out.append({"kind": "x-literal", "text": "{ f(x: {}) }", "vars": None, "query_dirs": qd})
            out.append({"kind": "x-variable", "text": "query($x: I) { f(x: $x) }", "vars": {"x": {}}, "query_dirs": qd})
            out.append({"kind": "x-variable", "text": "query($x: I = {}) { f(x: $x) }", "vars": None, "query_dirs": qd})
            # the value comes from the SDL default / from a variable default: same stages, on every execution (each request runs twice)
            out.append({"kind": "x-default", "field": "d", "text": "{ d }", "vars": None, "query_dirs": qd})
            out.append({"kind": "x-literal", "field": "d", "text": '{ d(x: {a: "v"}) }', "vars": None, "query_dirs": qd})
            out.append({"kind": "x-variable", "field": "d", "text": 'query($x: I = {a: "v"}) { d(x: $x) }', "vars": None, "query_dirs": qd})
            out.append({"kind": "w-object", "text": '{ w(x: {i: {a: "v"}}) }', "vars": None, "query_dirs": qd})
            out.append({"kind": "w-object", "text": "query($o: I) { w(x: {i: $o}) }", "vars": {"o": {"a": "v"}}, "query_dirs": qd})
            out.append({"kind": "w-object", "text": "query($x: W) { w(x: $x) }", "vars": {"x": {"i": {"a": "v"}}}, "query_dirs": qd})
            out.append({"kind": "w-list", "text": '{ w(x: {is: [{a: "v"}]}) }', "vars": None, "query_dirs": qd})
            out.append({"kind": "w-list", "text": "query($o: I) { w(x: {is: [$o]}) }", "vars": {"o": {"a": "v"}}, "query_dirs": qd})
            out.append({"kind": "w-list", "text": "query($o: [I]) { w(x: {is: $o}) }", "vars": {"o": {"a": "v"}}, "query_dirs": qd})
            out.append({"kind": "w-list", "text": "query($x: W) { w(x: $x) }", "vars": {"x": {"is": {"a": "v"}}}, "query_dirs": qd})
            out.append({"kind": "y-literal", "field": "g", "text": '{ g(y: "w") }', "vars": None, "query_dirs": qd})
            out.append({"kind": "y-variable", "field": "g", "text": "query($y: Tag) { g(y: $y) }", "vars": {"y": "w"}, "query_dirs": qd})
            out.append({"kind": "list-literal", "text": '{ os { h(y: "w") } }', "vars": None, "query_dirs": qd})
            out.append({"kind": "list-variable", "text": "query($y: Tag) { os { h(y: $y) } }", "vars": {"y": "w"}, "query_dirs": qd})
            out.append({"kind": "enum-literal", "text": "{ en(v: ONE) }", "vars": None, "query_dirs": qd})
            out.append({"kind": "enum-variable", "text": "query($v: E) { en(v: $v) }", "vars": {"v": "ONE"}, "query_dirs": qd})
        if len(qd) == 1:
            # the query-side directive's own argument comes through a variable / a variable default: the instance still gets *its* arguments
            out.append({"kind": "y-literal", "field": "f", "text": 'query($q: String!) { f(y: "w") @t%d(id: $q) }' % NDIR,
                        "vars": {"q": qd[0]}, "query_dirs": qd})
            out.append({"kind": "y-literal", "field": "f", "text": 'query($q: String! = "%s") { f(y: "w") @t%d(id: $q) }' % (qd[0], NDIR),
                        "vars": None, "query_dirs": qd})
            out.append({"kind": "object", "text": 'query($q: String!) { o @t%d(id: $q) { s tags } }' % NDIR, "vars": {"q": qd[0]}, "query_dirs": qd})
            out.append({"kind": "fragment-spread-twice", "text": '{ o { ...HF } o { ...HF } } fragment HF on O { h(y: "w")%s }' % qtext,
                        "vars": None, "query_dirs": qd})
            out.append({"kind": "fragment-spread-twice", "text": '{ ...QF o { ...HF } } fragment QF on Query { o { ... on O { ...HF } } } '
                                                                 'fragment HF on O { h(y: "w")%s }' % qtext, "vars": None, "query_dirs": qd})
        if len(qd) == 2:
            # the same response key selected twice: the directives of the merged field nodes nest in node order
            a, b = ' @t%d(id: "%s")' % (NDIR, qd[0]), ' @t%d(id: "%s")' % (NDIR - 1, qd[1])
            out.append({"kind": "y-literal", "field": "f", "text": '{ f(y: "w")%s f(y: "w")%s }' % (a, b), "vars": None, "query_dirs": qd})
            out.append({"kind": "y-literal", "field": "f", "text": '{ f(y: "w")%s ...FF } fragment FF on Query { f(y: "w")%s }' % (a, b),
                        "vars": None, "query_dirs": qd})
            out.append({"kind": "object", "text": "{ o%s { s } o%s { tags } }" % (a, b), "vars": None, "query_dirs": qd, "split": True})
        out.append({"kind": "object", "text": "{ o%s { s tags } }" % qtext, "vars": None, "query_dirs": qd})
        out.append({"kind": "interface", "text": "{ n%s { s tags } }" % qtext, "vars": None, "query_dirs": qd})
        out.append({"kind": "union", "text": "{ u%s { ... on O { s tags } } }" % qtext, "vars": None, "query_dirs": qd})
    return out


REJECT_KINDS = ("x-literal", "x-variable", "x-nested-variable", "x-default", "y-literal", "y-variable", "enum-literal", "enum-variable")


def rejection_clause(p, req, rej, resp, log, logs):
    """oracle for a run in which hook `rej` = (id, kind) raises on entry"""
    if not isinstance(resp, dict) or "data" not in resp:
        return "envelope"
    if not resp.get("errors"):
        return "rejection-not-reported"
    fname = req.get("field") or {"x": "f", "e": "en"}[req["kind"][0]]
    if resp["data"] is not None and resp["data"] != {fname: None}:
        return "value-delivered-despite-rejection"
    schema_ids = ids(p, "SCHEMA")
    for full in logs:
        cut = full.index((rej[0], rej[1], "enter"))
        inner = [e for e in full[:cut + 1] if e[1] != "schema"]
        if log == nest(schema_ids, "schema", inner):
            return None
    if any(e[0] == "resolver" for e in log):
        return "resolver-ran-after-rejection"
    return "stages-after-rejection"


SCHEMA_LOCS = [l for l in LOCS if l != "QUERY_FIELD"]


def placements(tier):
    out = [()]
    for n in range(1, MAXDIR[tier] + 1):
        out.extend(itertools.combinations_with_replacement(SCHEMA_LOCS, n))
    out.append(tuple(SCHEMA_LOCS[:5]))
    out.append(tuple(SCHEMA_LOCS[5:10]))
    return out


def shards(tier, seed):
    n = 64
    return [(k, n, tier) for k in range(n)] + [("typechange", 0, tier)]


# ---- hooks that return a value of a *different type* (an object wrapping what they were given): the next stage sees that object ----
class Boxed:
    """what a wrapping hook returns; deliberately has `value` and `errors` attributes like many result / enum-like objects"""
    errors = None

    def __init__(self, kind, value):
        self.kind = kind
        self.value = value


def describe(v):
    if isinstance(v, Boxed):
        return "%s(%s)" % (v.kind, describe(v.value))
    if isinstance(v, dict):
        return "{%s}" % ", ".join("%s: %s" % (k, describe(x)) for k, x in sorted(v.items()))
    if isinstance(v, list):
        return "[%s]" % ", ".join(describe(x) for x in v)
    return str(v)


class BoxDirective:
    async def on_post_input_coercion(self, directive_args, next_directive, parent_node, value, ctx):
        return Boxed("input", await next_directive(parent_node, value, ctx))

    async def on_argument_execution(self, directive_args, next_directive, parent_node, argument_definition_node, argument_node, value, ctx):
        return Boxed("arg", await next_directive(parent_node, argument_definition_node, argument_node, value, ctx))

    async def on_field_execution(self, directive_args, next_resolver, parent, args, ctx, info):
        harness.scenario_of(ctx).events.append(("field-hook-saw", describe(args)))
        return await next_resolver(parent, args, ctx, info)


TYPECHANGE_SDL = """
directive @box on ARGUMENT_DEFINITION | INPUT_FIELD_DEFINITION | ENUM_VALUE | FIELD_DEFINITION
enum Color { RED @box BLUE }
input In { c: Color @box n: Int @box k: Int }
type Query {
  bare(c: Color @box): String @box
  plain(c: Color): String
  listed(cs: [Color] @box): String
  nested(i: In @box): String
  num(n: Int @box, m: Int): String
}
"""
TYPECHANGE_REQUESTS = [
    # (literal text, variable text, variables, field, expected argument description)
    ("{ bare(c: RED) }", "query($c: Color) { bare(c: $c) }", {"c": "RED"}, "bare", "{c: arg(input(RED))}"),
    ("{ bare(c: BLUE) }", "query($c: Color) { bare(c: $c) }", {"c": "BLUE"}, "bare", "{c: arg(BLUE)}"),
    ("{ plain(c: RED) }", "query($c: Color) { plain(c: $c) }", {"c": "RED"}, "plain", "{c: input(RED)}"),
    ("{ listed(cs: [RED, BLUE]) }", "query($c: [Color]) { listed(cs: $c) }", {"c": ["RED", "BLUE"]}, "listed", "{cs: arg([input(RED), BLUE])}"),
    ("{ nested(i: {c: RED, n: 3, k: 4}) }", "query($i: In) { nested(i: $i) }", {"i": {"c": "RED", "n": 3, "k": 4}}, "nested",
     "{i: arg({c: input(input(RED)), k: 4, n: input(3)})}"),
    ("{ num(n: 5, m: 6) }", "query($n: Int) { num(n: $n, m: 6) }", {"n": 5}, "num", "{m: 6, n: arg(5)}"),
]


def run_typechange(out):
    name = harness.fresh_name("c13box")
    Directive("box", schema_name=name)(BoxDirective())
    for f in ("bare", "plain", "listed", "nested", "num"):
        def mk(f):
            async def r(parent, args, ctx, info):
                return describe(args)
            return r
        Resolver("Query." + f, schema_name=name)(mk(f))
    eng = harness.run(create_engine(TYPECHANGE_SDL, schema_name=name))
    for lit, var, variables, field, want in TYPECHANGE_REQUESTS:
        for way, text, vs in (("literal", lit, None), ("variable", var, variables)):
            for rnd in range(2):
                scn = Scenario(root={})
                resp = harness.execute(eng, text, scn, variables=vs)
                out["counts"]["evaluations"] += 1
                saw = [e[1] for e in scn.events if isinstance(e, tuple) and e[0] == "field-hook-saw"]
                got = (resp.get("data") or {}).get(field)
                if resp.get("errors") or got != want or (field == "bare" and saw != [want]):
                    out["violations"].append({
                        "signature": "stage-did-not-see-what-the-previous-hook-returned|%s|%s" % (field, way),
                        "summary": "hooks returning wrapper objects: %s variables=%r -> resolver saw %r (field hook saw %r), expected %r; response %r"
                                   % (text, vs, got, saw, want, resp),
                        "replay": {"typechange": True}})
                    break
    out["samples"].append({"type_changing_hooks": [r[0] for r in TYPECHANGE_REQUESTS]})
    harness.forget(name)
    run_null_replacing(out)


class OrDefault:
    """a type-level output hook that replaces null by a default: what it returns is what the non-null check and serialisation see"""

    async def on_pre_output_coercion(self, directive_args, next_directive, value, ctx, info):
        harness.scenario_of(ctx).events.append(("orDefault", repr(value)))
        return await next_directive(directive_args["v"] if value is None else value, ctx, info)


    async def on_post_input_coercion(self, directive_args, next_directive, parent_node, value, ctx):
        harness.scenario_of(ctx).events.append(("orDefault-in", repr(value)))
        return await next_directive(parent_node, directive_args["v"] if value is None else value, ctx)


NULLS_SDL = """
directive @orDefault(v: String!) on SCALAR | ENUM | OBJECT
scalar Lbl @orDefault(v: "n/a")
enum Mood @orDefault(v: "CALM") { CALM WILD }
input Box { tok: Lbl toks: [Lbl] mood: Mood }
type Query { lbl: Lbl! opt: Lbl lbls: [Lbl!] mood: Mood! moods: [Mood!]! echo(b: Box): String }
"""


def run_null_replacing(out):
    name = harness.fresh_name("c13null")
    Directive("orDefault", schema_name=name)(OrDefault())
    Scalar("Lbl", schema_name=name)(TagScalar())
    values = {"lbl": None, "opt": None, "lbls": ["a", None, "b"], "mood": None, "moods": [None, "WILD"]}
    for f, v in values.items():
        def mk(v):
            async def r(parent, args, ctx, info):
                return list(v) if isinstance(v, list) else v
            return r
        Resolver("Query." + f, schema_name=name)(mk(v))
    @Resolver("Query.echo", schema_name=name)
    async def r_echo(parent, args, ctx, info):
        b = args.get("b") or {}
        return repr({k: b[k] for k in sorted(b)})

    eng = harness.run(create_engine(NULLS_SDL, schema_name=name))
    want = {"lbl": "out:n/a", "opt": "out:n/a", "lbls": ["out:a", "out:n/a", "out:b"], "mood": "CALM", "moods": ["CALM", "WILD"]}
    calls = {"lbl": ["None"], "opt": ["None"], "lbls": ["'a'", "None", "'b'"], "mood": ["None"], "moods": ["None", "'WILD'"]}
    for f in values:
        for rnd in range(2):
            scn = Scenario(root={})
            resp = harness.execute(eng, "{ %s }" % f, scn)
            out["counts"]["evaluations"] += 1
            saw = [e[1] for e in scn.events if isinstance(e, tuple) and e[0] == "orDefault"]
            if resp.get("errors") or (resp.get("data") or {}).get(f) != want[f] or sorted(saw) != sorted(calls[f]):
                out["violations"].append({
                    "signature": "stage-did-not-see-what-the-previous-hook-returned|null-replaced-by-type-output-hook|%s" % f,
                    "summary": "type-level output hook replacing null: { %s } -> %r, hook saw %r; expected %r with hook calls %r"
                               % (f, resp, saw, want[f], calls[f]),
                    "replay": {"typechange": True}})
                break
    # input side: an explicit null reaches the type-level input hooks whether it is written as a literal or carried by a variable, and
    # what they return is what the resolver sees
    want_in = "{'mood': 'CALM', 'tok': 'n/a', 'toks': ['n/a', 'T:a']}"
    forms = [("literal", "{ echo(b: {tok: null, toks: [null, \"a\"], mood: null}) }", None),
             ("variable", "query($b: Box) { echo(b: $b) }", {"b": {"tok": None, "toks": [None, "a"], "mood": None}}),
             ("nested-variables", "query($t: Lbl, $m: Mood) { echo(b: {tok: $t, toks: [$t, \"a\"], mood: $m}) }", {"t": None, "m": None})]
    for way, text, vs in forms:
        scn = Scenario(root={})
        resp = harness.execute(eng, text, scn, variables=vs)
        out["counts"]["evaluations"] += 1
        got = (resp.get("data") or {}).get("echo")
        if resp.get("errors") or got != want_in:
            out["violations"].append({
                "signature": "stage-did-not-see-what-the-previous-hook-returned|null-replaced-by-type-input-hook|%s" % way,
                "summary": "type-level input hook replacing null [%s]: %s variables=%r -> %r, expected the resolver to see %s" % (way, text, vs, resp, want_in),
                "replay": {"typechange": True}})
    harness.forget(name)


def run_shard(item):
    k, n, tier = item
    if k == "typechange":
        out = {"counts": {"placements": 0, "evaluations": 0, "nontrivial": 0, "hooks_observed": 0}, "tables": {"by_size": {}}, "sets": {},
               "samples": [], "violations": [], "machinery": []}
        run_typechange(out)
        return out
    out = {"counts": {"placements": 0, "evaluations": 0, "nontrivial": 0, "hooks_observed": 0}, "tables": {"by_size": {}}, "sets": {},
           "samples": [], "violations": [], "machinery": []}
    ps = [p for i, p in enumerate(placements(tier)) if i % n == k]
    reqs = requests()
    for p in ps:
        try:
            eng, name = build(p)
        except Exception as e:  # noqa
            out["violations"].append({"signature": "engine-not-built|%s" % "+".join(sorted(set(p))), "summary": "placement %r: %r" % (p, e),
                                      "replay": {"placement": list(p)}})
            continue
        out["counts"]["placements"] += 1
        out["tables"]["by_size"][str(len(p))] = out["tables"]["by_size"].get(str(len(p)), 0) + 1
        if len(set(p)) < len(p):
            out["counts"]["nontrivial"] += 1
        for req in reqs:
            datas, logs = expected(p, req)
            clause = None
            for rnd in range(2):  # "once per execution": the second execution of a request runs the same stages again
                scn = Scenario(root={})
                resp = harness.execute(eng, req["text"], scn, variables=req["vars"])
                out["counts"]["evaluations"] += 1
                log = [e for e in scn.events if isinstance(e, tuple) and len(e) == 3 and e[0] != "hook"]
                out["counts"]["hooks_observed"] += len(log)
                if resp.get("errors") or resp.get("data") not in datas or log not in logs:
                    break
            if resp.get("errors") or resp.get("data") not in datas:
                clause = "value-seen-differs"
            elif log not in logs:
                counts = {}
                for e in log:
                    counts[e] = counts.get(e, 0) + 1
                if any(c != 1 for c in counts.values()) or sorted(log) != sorted(logs[0]):
                    clause = "hook-not-exactly-once"
                else:
                    clause = "hook-order"
            if clause:
                out["violations"].append({
                    "signature": "%s|%s|%s" % (clause, req["kind"], "+".join(sorted(set(p))) if len(p) <= 2 else "3+"),
                    "summary": "%s: placement %r request %s vars=%r -> %r\n log      %r\n expected %r (data %r)" % (
                        clause, p, req["text"], req["vars"], resp, log, logs[0], datas[0]),
                    "replay": {"placement": list(p), "request": req["text"]}})
                continue
            if req["kind"] not in REJECT_KINDS or req.get("split"):
                continue
            # a hook that rejects its value (raises on entry): no later stage may run, the failure is reported, and the stages that
            # did run are exactly those of the accepted run up to that hook -- whether the input is a literal or a variable
            for rej in sorted({(e[0], e[1]) for e in logs[0] if e[1] in ("input", "argument", "field") and e[2] == "enter"}):
                scn = Scenario(root={})
                scn.reject = rej
                resp = harness.execute(eng, req["text"], scn, variables=req["vars"])
                out["counts"]["evaluations"] += 1
                out["counts"]["rejections"] = out["counts"].get("rejections", 0) + 1
                log = [e for e in scn.events if isinstance(e, tuple) and len(e) == 3 and e[0] != "hook"]
                clause = rejection_clause(p, req, rej, resp, log, logs)
                if clause:
                    out["violations"].append({
                        "signature": "%s|%s|rejecting-%s-hook" % (clause, req["kind"], rej[1]),
                        "summary": "%s: placement %r request %s vars=%r, hook %r rejects -> %r\n log %r\n accepted run's log %r" % (
                            clause, p, req["text"], req["vars"], rej, resp, log, logs[0]),
                        "replay": {"placement": list(p), "request": req["text"], "reject": list(rej)}})
        harness.forget(name)
    if k == 0:
        out["samples"].append({"placement": list(ps[-1]) if ps else [], "sdl": sdl_for(ps[-1]) if ps else "", "requests": [r["text"] for r in reqs[:5]]})
    return out


def finish(agg, tier):
    c = agg.counts
    return {
        "states": c.get("placements", 0),
        "transitions": c.get("evaluations", 0),
        "traces_validated_against_impl": c.get("evaluations", 0),
        "evaluations": c.get("evaluations", 0),
        "distinct_nontrivial": c.get("nontrivial", 0),
        "rule": "states = schema decorations: every multiset of <= %d tagging-directive instances over the 11 schema-side location kinds "
                "(SCHEMA, SCALAR, OBJECT, FIELD_DEFINITION, ARGUMENT_DEFINITION, INTERFACE, UNION, ENUM, ENUM_VALUE, INPUT_OBJECT, "
                "INPUT_FIELD_DEFINITION), each cooked; x %d requests (argument as literal / variable / variable nested in an object literal, "
                "scalar argument, 0-2 query-side field directives, object / interface / union / enum results). The hooks are non-commuting "
                "taggers; the composition model predicts the final value and the exact enter/exit log. non-trivial = placements with two "
                "or three instances on one element" % (MAXDIR[tier], len(requests())),
        "exhaustive": True,
    }


def replay(rec):
    r = rec["replay"]
    if r.get("typechange"):
        out = {"counts": {"evaluations": 0}, "violations": [], "samples": []}
        run_typechange(out)
        return out["violations"]
    p = tuple(r["placement"])
    eng, name = build(p)
    out = []
    for req in requests():
        if r.get("request") and req["text"] != r["request"]:
            continue
        scn = Scenario(root={})
        if r.get("reject"):
            scn.reject = tuple(r["reject"])
        resp = harness.execute(eng, req["text"], scn, variables=req["vars"])
        datas, logs = expected(p, req)
        log = [e for e in scn.events if isinstance(e, tuple) and len(e) == 3 and e[0] != "hook"]
        if r.get("reject"):
            c = rejection_clause(p, req, tuple(r["reject"]), resp, log, logs)
            if c:
                out.append({"summary": "%s: placement %r request %s reject %r -> %r log %r" % (c, p, req["text"], r["reject"], resp, log)})
            continue
        if resp.get("errors") or resp.get("data") not in datas or log not in logs:
            out.append({"summary": "placement %r request %s -> %r log %r expected %r" % (p, req["text"], resp, log, logs[0])})
    return out
