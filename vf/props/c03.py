"""C03 — returned data conforms to schema and selection whatever resolvers return (DESIGN 4/C03).

Exhaustive over: every field of schema W (wrapper shape x leaf kind) x every value of the adversarial universe U, every
singleton list [u] and every pair from a 12-value core for list shapes.  Oracle: structural conformance derived from
(schema model, selection) — no expected value needed — plus "every manufactured null is explained by an error" and
JSON-serialisability.
"""
import asyncio
import enum
import itertools
import datetime
import json
import math
import types
from decimal import Decimal
from fractions import Fraction

from vf import doc, explore, harness, seeds, schema as S
from vf.data import Scenario, Obj
from vf.props.c02 import Bad

PROPERTY = "C03"
LEVEL = "model_checking"
ASSUMPTIONS = ["custom scalar Tag may serialise to any JSON value (its own implementation decides)"]
BUDGET_S = {"quick": 600, "thorough": 1800}

INT_MIN, INT_MAX = -(2 ** 31), 2 ** 31 - 1


def _gen():
    yield 1
    yield 2


class Cls:
    pass


class PyColor(enum.Enum):
    RED = "r"
    GREEN = "g"
    PURPLE = "p"


class PyLevel(enum.IntEnum):
    BLUE = 3
    ONE = 1


class StrColor(str, enum.Enum):
    RED = "RED"
    MAUVE = "MAUVE"


async def _raising_coro():
    raise ValueError("backend unavailable")


class _FailingAwaitable:
    def __await__(self):
        raise KeyError("no such row")
        yield  # pragma: no cover


class UnprintableError(Exception):
    def __str__(self):
        raise RuntimeError("this exception cannot be printed")


def _empty_multiple_exception():
    from tartiflette.types.exceptions.tartiflette import MultipleException
    return MultipleException()


class TypeObjRef:
    """stands for the engine's own GraphQLObjectType object of that name (a type resolver may return the type instead of its name)"""

    def __init__(self, name):
        self.name = name


def materialise(v, engine):
    if isinstance(v, TypeObjRef):
        return engine._schema.find_type(v.name)
    if isinstance(v, dict):
        return {k: materialise(x, engine) for k, x in v.items()}
    if isinstance(v, list):
        return [materialise(x, engine) for x in v]
    return v


UNIVERSE = [
    ("None", lambda: None), ("True", lambda: True), ("False", lambda: False),
    ("0", lambda: 0), ("1", lambda: 1), ("-1", lambda: -1), ("2^31-1", lambda: 2 ** 31 - 1), ("2^31", lambda: 2 ** 31),
    ("-2^31", lambda: -(2 ** 31)), ("-2^31-1", lambda: -(2 ** 31) - 1), ("2^53", lambda: 2 ** 53), ("-2^53", lambda: -(2 ** 53)),
    ("10^30", lambda: 10 ** 30), ("10^400", lambda: 10 ** 400),
    ("0.0", lambda: 0.0), ("-0.0", lambda: -0.0), ("1.0", lambda: 1.0), ("3.0", lambda: 3.0), ("1.5", lambda: 1.5),
    ("-1.5", lambda: -1.5), ("2147483648.0", lambda: 2147483648.0), ("1e308", lambda: 1e308), ("5e-324", lambda: 5e-324),
    ("nan", lambda: float("nan")), ("inf", lambda: float("inf")), ("-inf", lambda: float("-inf")),
    ("''", lambda: ""), ("'0'", lambda: "0"), ("'1'", lambda: "1"), ("'1.0'", lambda: "1.0"), ("'1.5'", lambda: "1.5"),
    ("'1e3'", lambda: "1e3"), ("' 1 '", lambda: " 1 "), ("'abc'", lambda: "abc"), ("'true'", lambda: "true"),
    ("'NaN'", lambda: "NaN"), ("'inf'", lambda: "inf"), ("'2147483648'", lambda: "2147483648"), ("'é☃'", lambda: "é☃"),
    ("'nullify'", lambda: "nullify"), ("'RED'", lambda: "RED"), ("'red'", lambda: "red"), ("'PURPLE'", lambda: "PURPLE"),
    ("bytes", lambda: b"abc"), ("tuple", lambda: (1, 2)), ("emptytuple", lambda: ()), ("set", lambda: {1}),
    ("frozenset", lambda: frozenset([1])), ("generator", _gen), ("range", lambda: range(2)),
    ("dict", lambda: {"x": 1}), ("emptydict", lambda: {}), ("dict-xy", lambda: {"x": 2, "y": "s", "z": 3}),
    ("dict-typename-O", lambda: {"_typename": "O", "x": 1, "y": "q"}), ("dict-typename-O2", lambda: {"_typename": "O2", "x": 1, "z": 5}),
    ("dict-typename-O2-nullz", lambda: {"_typename": "O2", "x": 1, "z": None}),
    ("dict-typename-O3", lambda: {"_typename": "O3", "x": 1}), ("dict-typename-unknown", lambda: {"_typename": "Nope"}),
    ("dict-typename-scalar", lambda: {"_typename": "Int"}), ("dict-typename-enum", lambda: {"_typename": "Color"}),
    ("dict-typename-iface", lambda: {"_typename": "I"}), ("dict-typename-int", lambda: {"_typename": 3}),
    ("dict-bad-x", lambda: {"_typename": "O", "x": "zzz"}),
    ("list", lambda: [1, 2]), ("emptylist", lambda: []), ("nested", lambda: [[1], [2, [3]]]), ("list-none", lambda: [None]),
    ("list-mixed", lambda: [1, "a", None, 2.5]), ("listlist", lambda: [[1, None], None]),
    ("obj", lambda: Obj(x=1, y="s", _typename="O")), ("cls", Cls), ("object", object), ("Bad", Bad),
    ("exception", lambda: Exception("as value")), ("valueerror", lambda: ValueError("v")), ("type", lambda: int),
    ("complex", lambda: 1j), ("ellipsis", lambda: ...),
    # Python objects users mirror GraphQL values with: Enum / IntEnum / str-Enum members, exact-arithmetic numbers
    ("pyenum-RED", lambda: PyColor.RED), ("pyenum-PURPLE", lambda: PyColor.PURPLE), ("intenum-BLUE", lambda: PyLevel.BLUE),
    ("intenum-ONE", lambda: PyLevel.ONE), ("strenum-RED", lambda: StrColor.RED), ("strenum-MAUVE", lambda: StrColor.MAUVE),
    ("decimal-3", lambda: Decimal("3")), ("decimal-1.5", lambda: Decimal("1.5")), ("decimal-almost-1", lambda: Decimal("0.9999999999999999999999999999")),
    ("fraction-7/2", lambda: Fraction(7, 2)), ("fraction-3/1", lambda: Fraction(3, 1)),
    ("decimal-nan", lambda: Decimal("NaN")), ("decimal-inf", lambda: Decimal("-Infinity")), ("decimal-1e400", lambda: Decimal("1e400")),
    ("bytes-nan", lambda: b"nan"),
    ("cancellederror", lambda: asyncio.CancelledError()), ("generatorexit", lambda: GeneratorExit("done")),
    ("keyboardinterrupt", lambda: KeyboardInterrupt()),
    ("dict-typeobj-O", lambda: {"_typename": TypeObjRef("O"), "x": 1, "y": "q"}),
    ("dict-typeobj-O2", lambda: {"_typename": TypeObjRef("O2"), "x": 1, "z": 5}),
    ("dict-typeobj-O3", lambda: {"_typename": TypeObjRef("O3"), "x": 1}),
    ("dict-typeobj-Query", lambda: {"_typename": TypeObjRef("Query"), "x": 1}),
    ("exception-unprintable", UnprintableError), ("multipleexception-empty", _empty_multiple_exception),
    # exceptions whose arguments are not strings (a missed lookup in a dict keyed by dates / tuples, an OSError, an exception given a dict)
    ("keyerror-date-key", lambda: KeyError(datetime.date(1999, 12, 31))), ("keyerror-tuple-key", lambda: KeyError((0, 1))),
    ("exception-dict-arg", lambda: Exception({"code": 7})), ("oserror", lambda: OSError(2, "No such file")),
    # the documented custom-error recipe: not a library error, only a `coerce_value` method
    ("exception-coercible-custom", lambda: harness.BusinessError("business rule", "BIZ")),
    ("coroutine-raising", _raising_coro), ("awaitable-failing", _FailingAwaitable),
    ("mappingproxy", lambda: types.MappingProxyType({"_typename": "O", "x": 1, "y": "q"})),
]
TE_LABELS = ["te-bare", "te-path", "te-locations", "te-located", "raise-te-located"]
CORE = ["None", "1", "'abc'", "1.5", "True", "nan", "2^31", "dict-typename-O", "dict-typename-unknown", "exception",
        "list", "'RED'", "'nullify'", "pyenum-RED", "decimal-almost-1", "coroutine-raising", "awaitable-failing", "dict-typeobj-O3", "dict-typeobj-O2", "exception-unprintable", "multipleexception-empty", "keyerror-date-key", "exception-coercible-custom"]
UDICT = dict(UNIVERSE)


def shards(tier, seed):
    schema, shapes = seeds.w_schema(tier)
    items = []
    for k in seeds.W_KINDS:
        for i in range(len(shapes)):
            items.append((k, i, tier))
    return items


def selection_for(kind):
    if kind in ("O",):
        return " { __typename x y }"
    if kind == "I":
        return " { __typename x ... on O { y } ... on O2 { z } }"
    if kind == "U":
        return " { __typename ... on O { x y } ... on O3 { x } }"
    return ""


EXPECTED_KEYS = {"O": ["__typename", "x", "y"], "O2": ["__typename", "x", "z"], "O3": ["__typename", "x"]}
POSSIBLE = {"O": ("O",), "I": ("O", "O2"), "U": ("O", "O3")}


def conforms(kind, t, v, path, problems):
    """structural conformance of result value v with type t (typeref tuple over leaf `kind`)"""
    if t[0] == "nn":
        if v is None:
            problems.append(("null-at-non-null", path))
            return
        return conforms(kind, t[1], v, path, problems)
    if v is None:
        return
    if t[0] == "list":
        if not isinstance(v, list):
            problems.append(("not-a-list", path))
            return
        for i, x in enumerate(v):
            conforms(kind, t[1], x, path + (i,), problems)
        return
    if kind == "Int":
        if not (type(v) is int and INT_MIN <= v <= INT_MAX):
            problems.append(("int-not-32bit-int:%s" % type(v).__name__, path))
    elif kind == "Float":
        if not (type(v) in (float, int) and math.isfinite(v)):
            problems.append(("float-not-finite-number:%s" % type(v).__name__, path))
    elif kind in ("String", "ID"):
        if not isinstance(v, str):  # a str subclass (e.g. a str-mixin Enum member) is text and serialises as such
            problems.append(("%s-not-str:%s" % (kind.lower(), type(v).__name__), path))
    elif kind == "Boolean":
        if type(v) is not bool:
            problems.append(("boolean-not-bool:%s" % type(v).__name__, path))
    elif kind == "Color":
        if v not in ("RED", "GREEN", "BLUE"):
            problems.append(("enum-not-declared-value", path))
    elif kind == "Tag":
        pass
    else:
        if not isinstance(v, dict):
            problems.append(("object-not-dict", path))
            return
        tn = v.get("__typename")
        if tn not in POSSIBLE[kind]:
            problems.append(("abstract-not-possible-type:%r" % (tn,), path))
            return
        if list(v.keys()) != EXPECTED_KEYS[tn]:
            problems.append(("selected-keys:%r" % (list(v.keys()),), path))
            return
        for k in ("x", "z"):
            if k in v and v[k] is not None and not (type(v[k]) is int and INT_MIN <= v[k] <= INT_MAX):
                problems.append(("int-not-32bit-int:%s" % type(v[k]).__name__, path + (k,)))
        if "z" in v and v["z"] is None:
            problems.append(("null-at-non-null", path + ("z",)))
        if "y" in v and v["y"] is not None and type(v["y"]) is not str:
            problems.append(("string-not-str", path + ("y",)))


def natural_null(u, sub, tag=False):
    """is the input value at sub-path (list indices / keys) None (so that a null in the result needs no error)?"""
    cur = u
    for k in sub:
        if cur is None:
            return True
        try:
            if isinstance(k, int):
                if not isinstance(cur, list):
                    return False
                cur = cur[k]
            else:
                cur = cur.get(k) if isinstance(cur, dict) else getattr(cur, k, None)
        except Exception:
            return False
    return cur is None or (tag and isinstance(cur, str) and cur == "nullify")  # the custom scalar Tag serialises "nullify" to null


def nulls_in(v, path, acc):
    if v is None:
        acc.append(path)
    elif isinstance(v, list):
        for i, x in enumerate(v):
            nulls_in(x, path + (i,), acc)
    elif isinstance(v, dict):
        for k, x in v.items():
            nulls_in(x, path + (k,), acc)
    return acc


def check_case(schema, engine, kind, fname, ftype, label, value, out, shape, config="default"):
    text = "{ %s%s }" % (fname, selection_for(kind))
    value = materialise(value, engine)
    scn = Scenario(root={}, overrides={(fname,): value})
    out["counts"]["evaluations"] += 1
    clause = None
    try:
        resp = harness.execute(engine, text, scn)
    except BaseException as e:  # noqa
        resp, clause = repr(e), "execute-raised"
    if clause is None:
        if not isinstance(resp, dict) or "data" not in resp:
            clause = "envelope"
        else:
            try:
                json.dumps(resp, allow_nan=False)
            except Exception as e:  # noqa
                clause = "not-json-serialisable"
    if clause is None:
        for e in resp.get("errors") or []:
            clause = clause or explore.error_shape(e)  # "reported in errors": an entry with a string message, a list path, ...
    if clause is None:
        data = resp["data"]
        errs = resp.get("errors") or []
        err_paths = [explore.path_of(e) for e in errs]
        if data is None:
            if not errs:
                clause = "data-null-without-error"
            out["tables"]["outcomes"]["data-null"] = out["tables"]["outcomes"].get("data-null", 0) + 1
        else:
            if list(data.keys()) != [fname]:
                clause = "selected-keys"
            else:
                problems = []
                conforms(kind, ftype, data[fname], (fname,), problems)
                if problems:
                    clause = problems[0][0]
                else:
                    # every manufactured null is explained by an error at or below it
                    for np_ in nulls_in(data[fname], (fname,), []):
                        if natural_null(value, np_[1:], tag=(kind == "Tag")):
                            continue
                        if not any(ep[:len(np_)] == np_ for ep in err_paths):
                            clause = "null-without-error"
                            break
                    # no error without a null at or above its path
                    if clause is None:
                        nulls = set(nulls_in(data[fname], (fname,), []))
                        for ep in err_paths:
                            if not any(ep[:len(n)] == n for n in nulls):
                                clause = "error-without-null"
                                break
            oc = "errors" if errs else "clean"
            out["tables"]["outcomes"][oc] = out["tables"]["outcomes"].get(oc, 0) + 1
        if clause is None:
            for ep in err_paths:
                if not ep or ep[0] != fname:
                    clause = "error-path-foreign"
    if clause:
        out["violations"].append({
            "signature": "%s|%s|%s" % (clause.split(":")[0], kind, label if "[" not in label else "list-of"),
            "summary": "%s: field %s: %s [%s completion], resolver returned %s -> %r" % (clause, fname, shape.replace("T", kind), config, label, resp),
            "replay": {"kind": kind, "shape": shape, "label": label, "tier_shapes": len(shape), "config": config}})


def _te(label, path):
    from tartiflette.types.exceptions.tartiflette import TartifletteError
    from tartiflette.language.ast import Location
    loc = [Location(line=1, column=3, line_end=1, column_end=4)]
    if label == "te-bare":
        return TartifletteError("upstream refused")
    if label == "te-path":
        return TartifletteError("upstream refused", path=list(path))
    if label == "te-locations":
        return TartifletteError("upstream refused", locations=loc)
    return TartifletteError("upstream refused", path=list(path), locations=loc)  # e.g. an error forwarded by a gateway


def value_of(label, fname=None):
    """labels: 'x' | '[x]' | '[x,y]' | '[[x]]' ; te-* labels build library errors that carry their own path / locations"""
    if label in TE_LABELS:
        return _te(label, (fname,))
    if label.startswith("[") and label[1:-1] in TE_LABELS:
        return [_te(label[1:-1], (fname, 0))]
    if label.startswith("[1|") and label[3:-1] in TE_LABELS:
        return [1, _te(label[3:-1], (fname, 1))]
    if label.startswith("[[") and label.endswith("]]"):
        return [[UDICT[label[2:-2]]()]]
    if label.startswith("[") and label.endswith("]"):
        parts = label[1:-1].split("|")
        return [UDICT[p]() for p in parts]
    return UDICT[label]()


def labels_for(shape, tier="quick"):
    labels = [l for l, _ in UNIVERSE] + [l for l in TE_LABELS if l != "raise-te-located"]
    if "[" in shape:
        labels += ["[%s]" % l for l, _ in UNIVERSE] + ["[%s]" % l for l in TE_LABELS[:4]] + ["[1|%s]" % l for l in TE_LABELS[:4]]
        pair_src = [l for l, _ in UNIVERSE] if tier == "thorough" else CORE
        labels += ["[%s|%s]" % (a, b) for a in pair_src for b in pair_src if "|" not in a and "|" not in b]
    if "[[" in shape:
        labels += ["[[%s]]" % l for l in CORE]
    return labels


def run_shard(item):
    kind, si, tier = item
    schema, shapes = seeds.w_schema(tier)
    engine = explore.engine_for(("W", tier), schema)
    shape = shapes[si]
    fname = seeds.w_field_name(kind, si)
    ftype = schema.field_def("Query", fname).type
    out = {"counts": {"evaluations": 0}, "tables": {"outcomes": {}}, "sets": {}, "samples": [], "violations": [],
           "machinery": []}
    labels = labels_for(shape, tier)
    for label in labels:
        check_case(schema, engine, kind, fname, ftype, label, value_of(label, fname), out, shape)
    if "[" in shape:
        # lists completed one item after the other (engine option) and sibling fields awaited in place
        seq = explore.engine_for(("W-seq", tier), schema, coerce_list_concurrently=False, coerce_parent_concurrently=False,
                                 typecfg={"resolver_kwargs_all": {"list_concurrently": False, "parent_concurrently": False}})
        for label in labels:
            check_case(schema, seq, kind, fname, ftype, label, value_of(label, fname), out, shape, config="sequential")
    out["counts"]["fields"] = 1
    out["counts"]["cases"] = len(labels)
    if si == 2:
        out["samples"].append({"field": "%s: %s" % (fname, shape.replace("T", kind)), "resolver_values": labels[:6] + labels[-3:]})
    return out


def finish(agg, tier):
    c = agg.counts
    oc = agg.tables.get("outcomes", {})
    return {
        "states": c.get("cases", 0),
        "transitions": c.get("evaluations", 0),
        "traces_validated_against_impl": c.get("evaluations", 0),
        "evaluations": c.get("evaluations", 0),
        "distinct_nontrivial": oc.get("errors", 0) + oc.get("data-null", 0),
        "rule": "a case = (field of schema W: wrapper shape x leaf kind, resolver return value); the universe has %d values "
                "(every JSON shape, ints/floats at and beyond the 32-bit / IEEE limits, numeric strings, bytes, tuples, sets, "
                "generators, objects, exception instances, dicts naming valid/unknown/foreign runtime types); list shapes also get "
                "every singleton [u] and every pair from a 13-value core, under the default engine and under sequential list / sibling completion. %d fields. non-trivial = cases where the engine had to "
                "null something (errors reported)" % (len(UNIVERSE), c.get("fields", 0)),
        "exhaustive": True,
    }


def replay(rec):
    r = rec["replay"]
    for tier in ("quick", "thorough"):
        schema, shapes = seeds.w_schema(tier)
        if r["shape"] in shapes:
            break
    si = shapes.index(r["shape"])
    if r.get("config") == "sequential":
        engine = harness.build_engine(schema, coerce_list_concurrently=False, coerce_parent_concurrently=False,
                                      typecfg={"resolver_kwargs_all": {"list_concurrently": False, "parent_concurrently": False}})
    else:
        engine = harness.build_engine(schema)
    fname = seeds.w_field_name(r["kind"], si)
    out = {"counts": {"evaluations": 0}, "tables": {"outcomes": {}}, "violations": []}
    check_case(schema, engine, r["kind"], fname, schema.field_def("Query", fname).type, r["label"], value_of(r["label"], fname), out, r["shape"],
               config=r.get("config", "default"))
    return out["violations"]
