"""C06 — valid documents are never refused by validation (DESIGN 4/C06).

Explicit-state BFS like C01 but over seeds and rewrite kinds chosen for validation bookkeeping: fragment DAGs with
sharing, fragments defined before / after use, variables used only inside (nested) fragments, custom directives in
every legal location, introspection meta fields, repeated identical fields with arguments, several named operations.
Oracle: E5 certifies validity (29 rules); the engine must not answer with a validation-tagged error nor with the
generic parse/validate failure, and `data` equals the C01 reference.
"""
from vf import doc, explore, harness, rewrite, seeds
from vf.data import Scenario, build_root
from vf.model import coerce as C, execute as X, validate as V

PROPERTY = "C06"
LEVEL = "model_checking"
ASSUMPTIONS = ["E5's validator decides which documents are valid (all 29 June-2018 rules incl. 5.3.2 field merging)"]
BUDGET_S = {"quick": 600, "thorough": 3000}
DEPTH = {"quick": 2, "thorough": 3}
SLICES = {"quick": 8, "thorough": 32}
KINDS = ("R3", "R5", "R6", "R8", "R10", "R11", "R14", "R15", "R16", "R4", "R17")
LEVEL2_QUICK = ("R3", "R5", "R6", "R8L", "R14", "R15")

SEEDS = [
    "{ a { ...X ...Y } } fragment X on A { id ...Z } fragment Y on A { name ...Z } fragment Z on A { a }",
    "{ a { ...X ...X } } fragment X on A { id }",
    "fragment Late on Query { num } { ...Late color }",
    "query Q($v: Int) { ...F1 } fragment F1 on Query { ...F2 } fragment F2 on Query { hello(n: $v) }",
    "query A($v: Int) { ...F } query B($v: Int) { ...F num } fragment F on Query { hello(n: $v) }",
    "{ __typename a { __typename } node { __typename ... on A { __typename } } pets { __typename } }",
    "{ hello(n: 1) hello(n: 1) x: need(x: 2) x: need(x: 2) }",
    "query D($n: Int = 2) @dq { num @dq(n: $n) ...DF @dq ... @dq(t: \"x\") { color } } fragment DF on Query @dq { need(x: 1) }",
    "{ node { ...NA ...NB } } fragment NA on A { id a ...NN } fragment NB on B { id b ...NN } fragment NN on Node { name }",
    "{ pet { ... on Node { id ...PN } } } fragment PN on Node { name ... on A { a } }",
    "mutation M($b: Int = 1) { inc(by: $b) ...MF } fragment MF on Mutation { set(v: \"s\") { id } }",
    "{ __schema { queryType { name } } __type(name: \"A\") { name } num }",
    "{ lst two hello a { echo } span }",
    "{ span(r: {tags: [\"t\"], to: 5, from: 1}, rs: [{to: 2, tags: [], from: 1, step: null}]) }",
    # operations, fragments, variables, aliases and types live in separate namespaces: the same name in several of them is legal
    "query Main { ...Detail } query Detail($id: Int!) { need(x: $id) } fragment Detail on Query { num }",
    "query A($A: Int) { A: a { ...A } hello(n: $A) } fragment A on A { A: id }",
    "{ ...None } fragment None on Query { num }",
    "query Query { ...Query } fragment Query on Query { Query: num }",
    # a variable used in a directive *on a fragment definition*, in several definition orders
    "query WithN($n: Int) { ...FN } query Other { num } fragment FN on Query @dq(n: $n) { num }",
    "query Other { num } query WithN($n: Int) { ...FN color } fragment FN on Query @dq(n: $n, t: \"x\") { num }",
    "fragment FN on Query @dq(n: $n) { num } query WithN($n: Int) { ...FN }",
    "query A($n: Int) { ...FN } query B($t: Tag) { ...FT } fragment FT on Query @dq(t: $t) { color } fragment FN on Query @dq(n: $n) { num }",
    # non-null wrappers of a variable type around / inside lists, used at positions that are nullable at that depth (5.8.5 allows it)
    "query Q($a: [Int!]!, $m: [[Int]!]) { lst(xs: $a, m: $m) }",
    "query Q($m: [[Int!]!]!, $p: [P!]!) { ...LF } fragment LF on Query { lst(m: $m, ps: $p) }",
    "query Q($i: [Int]!) { lst(m: [$i, [1]]) }",
    # subscriptions: one root field, any number of selections below it, reached through fragments too
    "subscription S { tick { id a name peer { id name } } }",
    "subscription S($n: Int = 1) { ...SR } fragment SR on Subscription { ... on Subscription { t: tick(n: $n) { id ...TA } } } fragment TA on A { a name }",
    # aliases named like *other* fields of the same parent type, whose same-named arguments have other types
    "query Q($x: String, $i: Int!) { need: hello(x: $x) hello: need(x: $i) echo: a { id echo: name } }",
    "query Q($x: String) { ...AF } fragment AF on Query { need: hello(x: $x, n: 2) num }",
    # a variable used on a field whose sub-selection ends with a field that has an argument of the same name and another type
    "mutation M($s: Int) { set(s: $s) { id echo(s: \"x\") } }",
    "mutation M($s: Int, $x: String) { ...MS } fragment MS on Mutation { set(s: $s, v: $x) { ... on A { name echo(x: 1, s: \"y\") } } }",
]


# valid documents that reuse each other's fragment / variable / operation names with different bodies and types: executed on ONE
# engine in every order (pairs, triples), each must still be accepted — validation must not remember earlier documents
COLLIDING = [
    "query Q($k: Int!) { ...L } fragment L on Query { need(x: $k) }",
    "query Q($k: String) { ...L } fragment L on Query { a { echo(s: $k) } }",
    "query Q($k: Tag) { ...L num } fragment L on Query { hello(t: $k) }",
    "query Q($k: [Int!]) { ...L } fragment L on Query { lst(xs: $k) ...M } fragment M on Query { num }",
    "query Q($k: Boolean!) { ...M } fragment M on Query { num @skip(if: $k) color }",
    "query Q { ...L } fragment L on Query { ...M } fragment M on Query { color }",
    "query Q($k: Color) { ...M ...L } fragment M on Query { hello(e: $k) } fragment L on Query { num }",
    "query R($k: Int) { node { ...L } } fragment L on Node { id ... on A { echo(x: $k) } }",
    "query R($k: P) { ...L } fragment L on Query { hello(p: $k) }",
    "mutation Q($k: Int) { ...L } fragment L on Mutation { inc(by: $k) }",
]


def shards(tier, seed):
    n = SLICES[tier]
    return [(si, k, n, tier) for si in range(len(SEEDS)) for k in range(n)] + [("collisions", i, tier) for i in range(len(COLLIDING))]


def _collisions(item, out):
    import itertools
    _, first, tier = item
    schema = seeds.K
    docs = [doc.roundtrip(doc.parse(t)) for t in COLLIDING]
    for t, d in docs:
        if V.validate(schema, d):
            out["machinery"].append("colliding document is not valid: %s %s" % (t, sorted(V.validate(schema, d))))
            return
    others = [i for i in range(len(COLLIDING)) if i != first]
    seqs = [(first, j) for j in others] + [(first, j, k2) for j in others for k2 in range(len(COLLIDING)) if k2 != j]
    for seq in seqs:
        engine = harness.build_engine(schema)  # a fresh engine per history
        for pos, i in enumerate(seq):
            text, located = docs[i]
            op = located.operations[0]
            variables = next(iter(explore.variable_assignments(schema, op)))
            scn = Scenario(root=build_root(schema, schema.root(op.kind), 1))
            resp = harness.execute(engine, text, scn, variables=variables or None)
            out["counts"]["evaluations"] += 1
            refused = [e for e in (resp.get("errors") or []) if "rule" in (e.get("extensions") or {}) or e.get("message") == "Server encountered an error."]
            if refused:
                out["violations"].append({
                    "signature": "valid-document-refused-after-other-documents|%s" % (refused[0].get("extensions") or {}).get("rule"),
                    "summary": "history %r: document #%d %s refused: %r" % ([COLLIDING[j] for j in seq[:pos + 1]], pos, text, refused[:1]),
                    "replay": {"history": [COLLIDING[j] for j in seq[:pos + 1]]}})
                break
        out["counts"]["states"] += 1
        out["sets"]["state_hashes"].add(explore.h64("collision%r" % (seq,)))
        out["sets"]["nontrivial_hashes"].add(explore.h64("collision%r" % (seq,)))
    out["samples"].append({"colliding_history": [COLLIDING[j] for j in seqs[-1]]})


def run_shard(item):
    if item[0] == "collisions":
        out = {"counts": {"evaluations": 0, "states": 0, "transitions": 0, "discarded_invalid": 0},
               "tables": {"rewrite_kinds": {}, "rewrite_kinds_discarded": {}}, "sets": {"state_hashes": set(), "nontrivial_hashes": set()},
               "samples": [], "violations": [], "machinery": []}
        _collisions(item, out)
        return _fin(out)
    si, k, n, tier = item
    schema = seeds.K
    engine = explore.engine_for("K", schema)
    out = {"counts": {"evaluations": 0, "states": 0, "transitions": 0, "discarded_invalid": 0},
           "tables": {"rewrite_kinds": {}, "rewrite_kinds_discarded": {}}, "sets": {"state_hashes": set(), "nontrivial_hashes": set()},
           "samples": [], "violations": [], "machinery": []}
    seed_doc = doc.parse(SEEDS[si])
    if V.validate(schema, seed_doc):
        out["machinery"].append("seed is not valid: %s %s" % (SEEDS[si], sorted(V.validate(schema, seed_doc))))
        return _fin(out)
    roots = {}
    stats = None
    depth = DEPTH[tier]
    try:
        kinds_by_level = {l: KINDS for l in range(1, depth + 1)}
        if tier == "quick":
            kinds_by_level[2] = LEVEL2_QUICK
        for d, level, trail, stats in explore.bfs(schema, seed_doc, depth, kinds_by_level, (k, n)):
            text, located = doc.roundtrip(d, pretty=(level == 1))
            out["counts"]["states"] += 1
            h = explore.h64(text)
            out["sets"]["state_hashes"].add(h)
            if len(located.fragments) >= 2 or any(o.vars for o in located.operations):
                out["sets"]["nontrivial_hashes"].add(h)
            ops = located.operations
            names = [o.name for o in ops] if len(ops) > 1 else [ops[0].name]
            for opn in names:
                op = X.get_operation(located, opn)
                for variables in list(explore.variable_assignments(schema, op))[:3]:
                    rt = schema.root(op.kind)
                    if rt not in roots:
                        roots[rt] = build_root(schema, rt, 1)
                    scn = Scenario(root=roots[rt])
                    out["counts"]["evaluations"] += 1
                    try:
                        resp = harness.execute(engine, text, scn, operation_name=opn, variables=variables or None)
                    except Exception as e:  # noqa
                        resp = {"raised": repr(e)}
                    clause = None
                    tags = []
                    if "raised" in resp:
                        clause = "execute-raised"
                    else:
                        for e in resp.get("errors") or []:
                            ext = e.get("extensions") or {}
                            if "rule" in ext or "tag" in ext:
                                clause = "valid-document-refused"
                                tags.append(str(ext.get("rule")))
                            elif e.get("message") == "Server encountered an error.":
                                clause = "valid-document-refused"
                                tags.append("server-error")
                    if clause is None:
                        exp = X.execute_request(schema, located, opn, variables or None, scn)
                        if exp.status != "ok":
                            out["machinery"].append("reference refuses a certified document: " + text)
                        elif not X.data_equal(exp.data, resp.get("data")):
                            clause = "data-mismatch"
                    if clause:
                        out["violations"].append({
                            "signature": "%s|%s" % (clause, "+".join(sorted(set(tags))) or "+".join(sorted(set(trail)))),
                            "summary": "%s: %s op=%r variables=%r -> %r" % (clause, text, opn, variables, resp),
                            "replay": {"text": text, "op": opn, "variables": variables}})
            if len(out["samples"]) < 2 and level == depth:
                out["samples"].append({"document": text, "rewrites": list(trail)})
    except doc.MachineryError as e:
        out["machinery"].append(str(e)[:400])
    if stats:
        out["counts"]["transitions"] += stats["transitions"]
        out["counts"]["discarded_invalid"] += stats["discarded_invalid"]
        out["tables"]["rewrite_kinds"] = dict(stats["kinds"])
        out["tables"]["rewrite_kinds_discarded"] = dict(stats["kinds_discarded"])
    return _fin(out)


def _fin(out):
    out["sets"] = {k: list(v) for k, v in out["sets"].items()}
    return out


def finish(agg, tier):
    c = agg.counts
    return {
        "states": len(agg.sets.get("state_hashes", ())),
        "transitions": c.get("transitions", 0),
        "traces_validated_against_impl": c.get("evaluations", 0),
        "evaluations": c.get("evaluations", 0),
        "distinct_nontrivial": len(agg.sets.get("nontrivial_hashes", ())),
        "rule": "states = distinct documents certified valid by E5 (29 rules) within d=%d rewrites (kinds %s, at every position) of %d "
                "seeds built around validation bookkeeping (fragment DAGs with sharing, late definitions, variables through nested "
                "fragments, directives in every executable location, introspection meta fields, repeated fields with arguments); each "
                "is executed for every operation name and up to 3 variable assignments. non-trivial = documents with >= 2 fragment "
                "definitions or with variables" % (DEPTH[tier], ",".join(KINDS), len(SEEDS)),
        "exhaustive": True,
    }


def replay(rec):
    r = rec["replay"]
    schema = seeds.K
    engine = harness.build_engine(schema)
    if "history" in r:
        for text in r["history"]:
            located = doc.parse(text)
            op = located.operations[0]
            variables = next(iter(explore.variable_assignments(schema, op)))
            resp = harness.execute(engine, text, Scenario(root=build_root(schema, schema.root(op.kind), 1)), variables=variables or None)
            bad = [e for e in (resp.get("errors") or []) if "rule" in (e.get("extensions") or {}) or e.get("message") == "Server encountered an error."]
        return [{"summary": "last document refused: %r" % bad[:1]}] if bad else []
    located = doc.parse(r["text"])
    op = X.get_operation(located, r["op"])
    scn = Scenario(root=build_root(schema, schema.root(op.kind), 1))
    resp = harness.execute(engine, r["text"], scn, operation_name=r["op"], variables=r["variables"] or None)
    for e in resp.get("errors") or []:
        ext = e.get("extensions") or {}
        if "rule" in ext or e.get("message") == "Server encountered an error.":
            return [{"summary": "valid document refused: %r" % (resp,)}]
    exp = X.execute_request(schema, located, r["op"], r["variables"] or None, scn)
    if not X.data_equal(exp.data, resp.get("data")):
        return [{"summary": "data mismatch: expected %r got %r" % (exp.data, resp)}]
    return []
