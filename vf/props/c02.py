"""C02 — field failures are contained: null propagation and error accounting (DESIGN 4/C02, engine E2).

Fault points = the field instances the reference executor reaches.  Enumerated exhaustively: every single
(fault point, failure kind), every pair (and triples in the thorough tier) on the seed documents, singles on every
document within one rewrite; plus the 6^3 chain schemas (every nullability/list layout between fault and root).
"""
import itertools

from vf import doc, explore, harness, seeds, schema as S
from vf.data import Scenario, build_root, lookup
from vf.model import coerce as C, execute as X

PROPERTY = "C02"
LEVEL = "fault_enumeration"
ASSUMPTIONS = [
    "reference executor E5 implements June-2018 6.4.4 error propagation",
    "parser stand-in supplies the node spans used for the location clause (cross-checked against the printer)",
]
BUDGET_S = {"quick": 600, "thorough": 3000}

WRAPPERS = ["T", "T!", "[T]", "[T]!", "[T!]", "[T!]!", "[[T]]", "[[T!]!]!"]  # the last two only in the thorough tier
RAISING = ("raise", "raise_te", "return_exc")


class Bad:
    """a value no leaf type can serialise"""

    def __str__(self):
        raise ValueError("unprintable")

    def __repr__(self):
        return "Bad()"


def kinds_for(schema, fdef, natural=None):
    """applicable failure kinds for a field of this declared type -> list of (kind label, fault, value)"""
    out = [("raise", "raise", None), ("raise_te", "raise_te", None), ("raise_te_ctor", "raise_te_ctor", None), ("raise_multi", "raise_multi", None), ("raise_coercible", "raise_coercible", None),
           ("return_exc", "return_exc", None), ("null", "none", None)]
    t = fdef.type
    core = t[1] if t[0] == "nn" else t
    if core[0] == "list":
        out.append(("nonlist", "value", 42))
        out.append(("nonlist-dict", "value", {"k": 1}))
        # ... and falsy ones (an empty string / tuple / dict, zero, False are not lists either)
        out.append(("nonlist-empty-string", "value", ""))
        out.append(("nonlist-zero", "value", 0))
        out.append(("nonlist-empty-dict", "value", {}))
        out.append(("nonlist-empty-tuple", "value", ()))
        # failures of single *items* (the error path must carry the index)
        item_t = core[1]
        item_core = item_t[1] if item_t[0] == "nn" else item_t
        base = list(natural) if isinstance(natural, list) else []
        bads = [("item-exception", Exception("item failure")), ("item-null", None)]
        if item_core[0] == "named":
            itd = schema.type(item_core[1])
            if itd.kind in ("SCALAR", "ENUM"):
                bads.append(("item-unserialisable", Bad()))
                if itd.name == "Tag":
                    bads.append(("item-serialises-to-null", "nullify"))
            elif itd.kind in ("INTERFACE", "UNION"):
                bads.append(("item-unknown-type", {"_typename": "Nope", "id": "x"}))
                foreign = [o.name for o in schema.types if o.kind == "OBJECT" and o.name not in schema.possible_types(itd.name)
                           and o.name not in (schema.query, schema.mutation, schema.subscription)]
                if foreign:
                    bads.append(("item-foreign-type", {"_typename": foreign[0], "id": "x"}))
        else:
            bads.append(("item-nonlist", 7))
        for label, bad in bads:
            out.append((label + "-last", "value", base + [bad]))
            out.append((label + "-first", "value", [bad] + base))
        # a longer list: the failing item at index 4 and at index 5 of six (the error path must carry *that* index)
        if base:
            six = (base * 6)[:6]
            for label, bad in bads[:2]:
                for k in (4, 5):
                    out.append(("%s-at-%d-of-6" % (label, k), "value", six[:k] + [bad] + six[k + 1:]))
        # a long list (beyond any plausible batch size of an implementation): failing item near the end of 150 leaf items
        if item_core[0] == "named" and schema.type(item_core[1]).kind in ("SCALAR", "ENUM"):
            filler = {"Int": 1, "Float": 1.5, "String": "s", "ID": "i", "Boolean": True, "Tag": "t"}.get(
                item_core[1], schema.type(item_core[1]).values[0].name if schema.type(item_core[1]).kind == "ENUM" else "x")
            long = ((base or [filler]) * 150)[:150]
            out.append(("item-null-at-137-of-150", "value", long[:137] + [None] + long[138:]))
    else:
        td = schema.type(core[1])
        if td.kind in ("SCALAR", "ENUM"):
            out.append(("unserialisable", "value", Bad()))
            if td.name == "Tag":
                out.append(("serialises-to-null", "value", "nullify"))  # the custom scalar turns this value into null
        elif td.kind in ("INTERFACE", "UNION"):
            out.append(("unknown-type", "value", {"_typename": "Nope", "id": "x"}))
            foreign = [o.name for o in schema.types if o.kind == "OBJECT" and o.name not in schema.possible_types(td.name)
                       and o.name not in (schema.query, schema.mutation, schema.subscription)]
            if foreign:
                out.append(("foreign-type", "value", {"_typename": foreign[0], "id": "x"}))
            out.append(("non-object-type", "value", {"_typename": "Color", "id": "x"}))
    return out


def field_def_at(schema, located, op, path, calls_types):
    return calls_types.get(path)


NATURAL = {}


def reach_points(schema, located, op_name, variables, root):
    """fault points of the fault-free run: path -> FieldDef (via a tracing executor)"""
    scn = Scenario(root=root)
    ex = X.Executor(schema, located, scn)
    points = {}
    orig = ex.field
    NATURAL.clear()

    def traced(obj_type, source, nodes, path):
        name = nodes[0].name
        if not name.startswith("__"):
            points.setdefault(path, schema.field_def(obj_type, name))
            NATURAL.setdefault(path, lookup(source, name))
        return orig(obj_type, source, nodes, path)

    ex.field = traced
    out = ex.run(op_name, variables, root)
    return points, out


def in_span(loc, span):
    l, c = loc["line"], loc["column"]
    l0, c0, l1, c1 = span
    return (l0, c0) <= (l, c) < (l1, c1)


_SEQUENTIAL = [False]


def judge(exp, resp, faults, sequential=False):
    """C02 oracle; -> clause or None.  sequential=True (engines completing siblings / items one after the other): a position that lies
    below another nulled position is not in the response, and the failure behind it may never have been reached (DC8: once a non-null
    failure propagates, the remaining work of that selection set may be cancelled) -- it then needs no error of its own."""
    if not isinstance(resp, dict) or "data" not in resp:
        return "envelope"
    if not X.data_equal(exp.data, resp["data"]):
        return "data-mismatch"
    errs = resp.get("errors") or []
    fail_paths = set(exp.failures)
    seen = set()
    for e in errs:
        shape = explore.error_shape(e)
        if shape:
            return shape
        p = tuple(e.get("path") or ())
        if p not in fail_paths:
            return "error-without-failure"
        seen.add(p)
        locs = e.get("locations") or []
        if not locs:
            return "error-without-location"
        spans = [n.loc for n in exp.failures[p]]
        for n in exp.failures[p]:
            spans.extend(a.loc for a in n.args)
        for l in locs:
            if not any(in_span(l, sp) for sp in spans):
                return "location-outside-field"
        kind = faults.get(p)
        if kind == "raise_te" and any(c[0] == p for c in exp.calls):  # only if the resolver was reached (arguments coerced)
            if e["message"] != "user message %s" % (list(p),) or e.get("extensions") != {"code": "E42", "where": list(p)}:
                return "user-message-or-extensions-lost"
        if kind == "raise_coercible" and any(c[0] == p for c in exp.calls):
            if e["message"] != "business rule at %s" % (list(p),) or e.get("extensions") != {"code": "BIZ"}:
                return "user-message-or-extensions-lost"
        if kind == "raise_te_ctor" and any(c[0] == p for c in exp.calls):
            if e["message"] != "ctor user message %s" % (list(p),) or e.get("extensions") != {"code": "CTOR", "where": list(p)}:
                return "user-message-or-extensions-lost"
    for n in exp.nulled:
        if not any(p[:len(n)] == n for p in seen):
            if sequential and any(len(m) < len(n) and tuple(n[:len(m)]) == tuple(m) for m in exp.nulled):
                continue
            return "nulled-position-unexplained"
    if not exp.nulled and errs:
        return "error-but-nothing-nulled"
    return None


def run_fault_case(schema, engine, located, text, op_name, variables, root, fault_set, out, tag, replay_base):
    """fault_set: list of (path, label, fault, value)"""
    faults = {p: f for p, _, f, _ in fault_set}
    values = {p: v for p, _, f, v in fault_set if f == "value"}
    scn = Scenario(root=root, faults=faults, fault_values=values)
    out["counts"]["evaluations"] += 1
    try:
        resp = harness.execute(engine, text, scn, operation_name=op_name, variables=variables)
    except Exception as e:  # noqa
        resp, clause = repr(e), "execute-raised"
    else:
        exp = X.execute_request(schema, located, op_name, variables, scn)
        clause = judge(exp, resp, faults, sequential=_SEQUENTIAL[0])
        if exp.failures:
            out["counts"]["with_failures"] += 1
        if () in exp.nulled:
            out["counts"]["data_nulled"] += 1
        out["tables"]["nulled_positions_per_case"][str(len(exp.nulled))] = \
            out["tables"]["nulled_positions_per_case"].get(str(len(exp.nulled)), 0) + 1
    if clause:
        labels = "+".join(sorted(l for _, l, _, _ in fault_set))
        shape = "+".join(sorted(("item" if any(isinstance(k, int) for k in p) else ("root" if len(p) == 1 else "nested"))
                                for p, _, _, _ in fault_set))
        out["violations"].append({
            "signature": "%s|%s|%s" % (clause, labels, shape),
            "summary": "%s: %s faults=%r -> %r (expected data %r, failures %r)" % (
                clause, text, [(list(p), l) for p, l, _, _ in fault_set], resp,
                None if clause == "execute-raised" else exp.data,
                None if clause == "execute-raised" else sorted(map(list, exp.failures))),
            "replay": dict(replay_base, text=text, op=op_name, variables=variables,
                           faults=[[list(p), l] for p, l, _, _ in fault_set], tag=tag)})


def _new_out():
    return {"counts": {"evaluations": 0, "with_failures": 0, "data_nulled": 0, "fault_points": 0, "documents": 0,
                       "singles": 0, "pairs": 0, "triples": 0},
            "tables": {"nulled_positions_per_case": {}, "kinds": {}}, "sets": {"cases": set()},
            "samples": [], "violations": [], "machinery": []}


def enumerate_faults(schema, engine, located, text, op_name, variables, root, out, tag, replay_base, pairs, triples):
    points, base = reach_points(schema, located, op_name, variables, root)
    singles = []
    for p, fd in points.items():
        if fd is None:
            continue
        for label, fault, value in kinds_for(schema, fd, NATURAL.get(p)):
            singles.append((p, label, fault, value))
            out["tables"]["kinds"][label] = out["tables"]["kinds"].get(label, 0) + 1
    out["counts"]["fault_points"] += len(points)
    out["counts"]["documents"] += 1
    # the fault-free run must itself agree (and report nothing)
    run_fault_case(schema, engine, located, text, op_name, variables, root, [], out, tag, replay_base)
    for s in singles:
        run_fault_case(schema, engine, located, text, op_name, variables, root, [s], out, tag, replay_base)
        out["counts"]["singles"] += 1
        out["sets"]["cases"].add(explore.h64("%s|%s|%s|%r|%r|%s" % (replay_base.get("w"), text, op_name, variables, s[0], s[1])))
    if pairs:
        core = [s for s in singles if s[1] in ("raise", "null", "raise_te", "unserialisable", "nonlist", "unknown-type", "item-unknown-type-last",
                                              "item-null-first", "item-exception-last")]
        for a, b in itertools.combinations(core, 2):
            if a[0] == b[0]:
                continue
            run_fault_case(schema, engine, located, text, op_name, variables, root, [a, b], out, tag, replay_base)
            out["counts"]["pairs"] += 1
            out["sets"]["cases"].add(explore.h64("%s|%s|%s|%r|%r|%s|%r|%s" % (replay_base.get("w"), text, op_name, variables, a[0], a[1], b[0], b[1])))
    if triples and len(points) <= 8:
        core = [s for s in singles if s[1] in ("raise", "null")]
        for a, b, c in itertools.combinations(core, 3):
            if len({a[0], b[0], c[0]}) < 3:
                continue
            run_fault_case(schema, engine, located, text, op_name, variables, root, [a, b, c], out, tag, replay_base)
            out["counts"]["triples"] += 1
            out["sets"]["cases"].add(explore.h64("%s|%r%s%r%s%r%s" % (text, a[0], a[1], b[0], b[1], c[0], c[1])))


# ---- chain schemas -----------------------------------------------------------------------------------------------------------
def wrap(w, name):
    return w.replace("T", name)


def chain_schema(w1, w2, w3):
    sdl = """
scalar Tag
type Query { a: %s k: Int }
type A { b: %s k: Int }
type B { c: %s k: Int t: %s }
""" % (wrap(w1, "A"), wrap(w2, "B"), wrap(w3, "Int"), wrap(w3, "Tag"))
    return S.parse_sdl(sdl)


def chain_value(t, leaf_fn):
    """well-typed value: lists get two elements"""
    if t[0] == "nn":
        return chain_value(t[1], leaf_fn)
    if t[0] == "list":
        return [chain_value(t[1], leaf_fn), chain_value(t[1], leaf_fn)]
    return leaf_fn()


def chain_root(schema):
    n = [0]

    def leaf_c():
        n[0] += 1
        return n[0]

    def leaf_t():
        n[0] += 1
        return "t%d" % n[0]

    def obj_b():
        return {"c": chain_value(schema.field_def("B", "c").type, leaf_c), "k": 7,
                "t": chain_value(schema.field_def("B", "t").type, leaf_t)}

    def obj_a():
        return {"b": chain_value(schema.field_def("A", "b").type, obj_b), "k": 8}

    return {"a": chain_value(schema.field_def("Query", "a").type, obj_a), "k": 9}


CHAIN_DOC = "{ k a { k b { k c t } } }"


ARG_DOCS = [
    # argument coercion failures reachable in valid documents: the error must be located at the field / its argument
    "query A($v: Int = 1) { need(x: $v) num }",
    "query A($v: Int = 1, $w: Int) { a { id } need(x: $v, y: $w) lst(xs: [1, $v]) }",
    "query A($p: Int = 2) { hello(p: {a: $p, c: [$p]}) two(a: $p) }",
]


def shards(tier, seed):
    items = []
    nseeds = len(seeds.K_DOCS) + len(seeds.K_MUTATIONS) + len(ARG_DOCS)
    for si in range(nseeds):
        items.append(("seed", si, tier))
    nw = 6 if tier == "quick" else 8
    for w1 in range(nw):
        for w2 in range(nw):
            items.append(("chain", w1, w2, tier))
    return items


def run_shard(item):
    out = _new_out()
    try:
        _SEQUENTIAL[0] = False
        if item[0] == "seed":
            _, si, tier = item
            schema = seeds.K
            engine = explore.engine_for("K", schema)
            seed_text = (seeds.K_DOCS + seeds.K_MUTATIONS + ARG_DOCS)[si]
            depth = 1
            for d, level, trail, stats in explore.bfs(schema, doc.parse(seed_text), depth):
                # every other seed is laid out over several lines: error locations are (line, column) pairs
                text, located = doc.roundtrip(d, pretty=(si % 2 == 1))
                ops = located.operations
                names = [o.name for o in ops] if len(ops) > 1 else [ops[0].name]
                for opn in names:
                    op = X.get_operation(located, opn)
                    assignments = list(explore.variable_assignments(schema, op, with_null=True))[:3]
                    for variables in assignments:
                        root = build_root(schema, schema.root(op.kind), 1)
                        enumerate_faults(schema, engine, located, text, opn, variables or None, root, out,
                                         "K-d%d" % level, {"kind": "seed", "variant": 1},
                                         pairs=(level == 0 or tier == "thorough"),
                                         triples=(tier == "thorough" and level == 0))
                if len(out["samples"]) < 1 and level == 1:
                    out["samples"].append({"document": text, "fault_kinds": [k for k, _, _ in kinds_for(schema, schema.field_def("Query", "nodes"))]})
        else:
            _, w1, w2, tier = item
            for w3 in range(6 if tier == "quick" else 8):
                schema = chain_schema(WRAPPERS[w1], WRAPPERS[w2], WRAPPERS[w3])
                # every other chain engine completes list items and sibling fields one after the other (engine options and per field)
                seq = (w1 + w2 + w3) % 2 == 1
                ekw = {"typecfg": {"resolver_kwargs_all": {"list_concurrently": False, "parent_concurrently": False}},
                       "coerce_list_concurrently": False, "coerce_parent_concurrently": False} if seq else {}
                engine = explore.engine_for(("chain", w1, w2, w3), schema, **ekw)
                _SEQUENTIAL[0] = seq
                out["counts"]["sequential_chain_engines"] = out["counts"].get("sequential_chain_engines", 0) + (1 if seq else 0)
                text, located = doc.roundtrip(doc.parse(CHAIN_DOC))
                root = chain_root(schema)
                enumerate_faults(schema, engine, located, text, None, None, root, out,
                                 "chain", {"kind": "chain", "w": [WRAPPERS[w1], WRAPPERS[w2], WRAPPERS[w3]]},
                                 pairs=True, triples=False)
            out["samples"].append({"chain_schema": [WRAPPERS[w1], WRAPPERS[w2], "*"], "document": CHAIN_DOC})
    except doc.MachineryError as e:
        out["machinery"].append(str(e)[:500])
    out["sets"] = {k: list(v) for k, v in out["sets"].items()}
    return out


def finish(agg, tier):
    c = agg.counts
    return {
        "evaluations": c.get("evaluations", 0),
        "distinct_nontrivial": len(agg.sets.get("cases", ())),
        "states": len(agg.sets.get("cases", ())),
        "transitions": c.get("singles", 0) + 2 * c.get("pairs", 0) + 3 * c.get("triples", 0),
        "traces_validated_against_impl": c.get("evaluations", 0),
        "rule": "a case = (document, operation, variables, set of injected faults); fault points are the field instances the "
                "reference executor reaches (list indices included); all singles x applicable failure kinds "
                "{raise, raise library error, exception returned as value, null, unserialisable leaf, non-list for list, "
                "unknown / foreign / non-object runtime type} on every document within 1 rewrite of the 14 seeds, all pairs on "
                "the seeds%s, and singles + pairs on the chain schemas (6 wrapper shapes ^ 3 levels = 216; thorough 8 ^ 3 = 512 incl. two-level lists). distinct_nontrivial = "
                "distinct cases with at least one injected fault" % (" and on d=1 documents, triples on seeds" if tier == "thorough" else ""),
        "exhaustive": True,
    }


def replay(rec):
    r = rec["replay"]
    out = _new_out()
    if r["kind"] == "chain":
        schema = chain_schema(*r["w"])
        root = chain_root(schema)
    else:
        schema = seeds.K
        root = None
    engine = harness.build_engine(schema)
    located = doc.parse(r["text"])
    if root is None:
        op = X.get_operation(located, r["op"])
        root = build_root(schema, schema.root(op.kind), r.get("variant", 1))
    points, _ = reach_points(schema, located, r["op"], r["variables"], root)
    fs = []
    for p, label in r["faults"]:
        p = tuple(p)
        fd = points.get(p)
        if fd is None:
            # fault point only reachable in the faulty run's absence; look the definition up structurally
            continue
        for l, f, v in kinds_for(schema, fd, NATURAL.get(p)):
            if l == label:
                fs.append((p, l, f, v))
    run_fault_case(schema, engine, located, r["text"], r["op"], r["variables"], root, fs, out, "replay", {"kind": r["kind"], "w": r.get("w")})
    return out["violations"]
