"""C09 — mutation root fields run serially, in document order (DESIGN 4/C09, engine E3).

All interleavings of the nested resolvers (root resolvers suspend too) for mutation documents built from
{plain, alias, root-level inline fragment, root-level named fragment, nested selection with a 2-element list,
repeated root key} x failure placements {none, nullable root raises, non-null root raises, nested non-null failure
bubbling up}.  Oracle on the event log: everything under root key r1 precedes everything under the next root key.
"""
import json

from vf import doc, explore, harness, sched, seeds, schema as S
from vf.data import Scenario, build_root
from vf.model import execute as X
from vf.props import c02

PROPERTY = "C09"
LEVEL = "model_checking"
ASSUMPTIONS = ["one suspension per resolver; callback-level scheduling of one asyncio loop"]
BUDGET_S = {"quick": 600, "thorough": 1800}
MAX_I = {"quick": 1, "thorough": 2}
CAP = {"quick": 80000, "thorough": 600000}

DOCS = [
    "mutation { inc set(v: \"x\") { id name } }",
    "mutation { a: inc(by: 2) b: inc other { b tags } }",
    "mutation { ... on Mutation { inc } ...MF other { b } } fragment MF on Mutation { set(v: \"s\") { id } }",
    "mutation { many { id name } inc }",
    "mutation { inc inc other { b } other { strict } }",
    "mutation { must inc }",
    "mutation { inc must other { b } }",
    "mutation { set(v: \"x\") { id peer { id } } many { id } }",
    "mutation { req { id name } inc }",
    "mutation { other { b } req { id } inc }",
    "mutation M($s: Boolean!) { inc @skip(if: $s) other { b tags } x: inc }",
    "mutation { ...MF2 } fragment MF2 on Mutation { inc set(v: \"s\") { id name } other { b } }",
    "mutation { ... on Mutation { set(v: \"s\") { id name } other { b tags } } }",
    "mutation { ... { inc other { b } must } }",
    "mutation { other { b tags strict } inc }",
    "mutation { x: inc other { b } x: inc set(v: \"s\") { id } other { tags } }",
    "mutation { set(v: \"x\") { name id a } inc other { strict b } }",
    # a nullable root field whose *arguments* fail at execution time (null variable into a defaulted non-null argument): a field error
    # like any other -- the following root fields still run
    "mutation M($n: Int = 2) { a: inc(step: $n) set(v: \"x\") { id } b: inc }",
    "mutation M($n: Int = 2) { ...SF other { b } } fragment SF on Mutation { inc first: inc(by: 1, step: $n) }",
]
DOC_VARS = {"mutation M($n: Int = 2) { a: inc(step: $n) set(v: \"x\") { id } b: inc }": [{"n": None}, {"n": 3}, {}],
            "mutation M($n: Int = 2) { ...SF other { b } } fragment SF on Mutation { inc first: inc(by: 1, step: $n) }": [{"n": None}, {}]}
# sibling fields awaited in place or gathered, per field: default (all gathered) and the two alternating assignments
CONFIGS = ["default", "mixed-even", "mixed-odd", "engine-sequential", "renamed-roots"]
# the same schema with other names for the root types (declared through a `schema { ... }` block)
K_RENAMED = S.parse_sdl(seeds.K_SDL.replace("type Mutation {", "type RootM {").replace("type Query {", "type RootQ {")
                        .replace("type Subscription {", "type RootS {") + "\nschema { query: RootQ mutation: RootM subscription: RootS }\n")


def schema_for(cfg):
    return K_RENAMED if cfg == "renamed-roots" else seeds.K



def engine_for(cfg):
    schema = seeds.K
    if cfg == "default":
        return explore.engine_for("K", schema)
    if cfg == "renamed-roots":
        return explore.engine_for(("C09", cfg), K_RENAMED)
    if cfg == "engine-sequential":
        # the engine-wide options; @Resolver's own default (parent_concurrently=True) still applies to every field with a resolver
        return explore.engine_for(("C09", cfg), schema, coerce_parent_concurrently=False, coerce_list_concurrently=False)
    par = 0 if cfg == "mixed-even" else 1
    per, n = {}, 0
    for td in schema.types:
        if td.kind == "OBJECT":
            for f in td.fields:
                n += 1
                per["%s.%s" % (td.name, f.name)] = {"parent_concurrently": n % 2 == par, "list_concurrently": n % 3 != par}
    return explore.engine_for(("C09", cfg), schema, typecfg={"resolver_kwargs": per})


def shards(tier, seed):
    return [(di, tier, cfg) for di in range(len(DOCS)) for cfg in CONFIGS]


def placements(schema, located, variables, root, overrides):
    """failure placements: none, raise at each root field, null/raise at each nested non-null field"""
    scn = Scenario(root=root, overrides=overrides)
    ex = X.Executor(schema, located, scn)
    points = {}
    orig = ex.field

    def traced(obj_type, source, nodes, path):
        if not nodes[0].name.startswith("__"):
            points.setdefault(path, schema.field_def(obj_type, nodes[0].name))
        return orig(obj_type, source, nodes, path)

    ex.field = traced
    ex.run(None, variables, root)
    out = [{}]
    for p, fd in points.items():
        if len(p) == 1:
            out.append({p: "raise"})
            out.append({p: "none"})
            out.append({p: "raise_coercible"})
        elif fd.type[0] == "nn":
            out.append({p: "none"})
            out.append({p: "raise"})
        else:
            out.append({p: "raise"})
    return out


def run_shard(item):
    di, tier = item[0], item[1]
    cfg = item[2] if len(item) > 2 else "default"
    schema = schema_for(cfg)
    engine = engine_for(cfg)
    out = {"counts": {"schedules": 0, "choice_points": 0, "cases": 0, "nontrivial": 0}, "tables": {"roots": {}}, "sets": {},
           "samples": [], "violations": [], "machinery": [], "caps": []}
    text, located = doc.roundtrip(doc.parse(DOCS[di].replace(" on Mutation", " on " + schema.mutation)))
    root = build_root(schema, schema.mutation, 2)
    a1 = build_root(schema, "A", 3, depth=2)
    a2 = build_root(schema, "A", 4, depth=2)
    overrides = {("many",): [a1, a2], ("req",): a1, ("other",): build_root(schema, "B", 5, depth=2)}
    loop = sched.VLoop()
    varsets = DOC_VARS.get(DOCS[di]) or ([{"s": True}, {"s": False}] if located.operations[0].vars else [None])
    for variables in varsets:
        for faults in placements(schema, located, variables, root, overrides):
            scn = Scenario(root=root, faults=faults, overrides=overrides)
            exp = X.execute_request(schema, located, None, variables, scn)
            root_keys = list(X.Executor(schema, located, scn).collect(schema.mutation, located.operations[0].sel, {}, set())) \
                if True else []
            # collection needs coerced variables for @skip: recompute through a fresh executor
            exr = X.Executor(schema, located, scn)
            exr.vars = exp.variables
            root_keys = list(exr.collect(schema.mutation, located.operations[0].sel, {}, set()))
            state = {"viol": None, "n": 0, "nontrivial": 0}

            def make_task(s):
                scn.reset()
                scn.sched = s
                harness.CURRENT[0] = scn
                return engine.execute(text, context=scn, variables=variables, initial_value=scn.root)

            def on(ex):
                state["n"] += 1
                if any(ex.choices):
                    state["nontrivial"] += 1
                clause = None
                r = ex.result
                if ex.status != "ok":
                    clause = ex.status
                else:
                    clause = c02.judge(exp, r, faults)
                if clause is None:
                    # serial discipline on the event log
                    order = {k: i for i, k in enumerate(root_keys)}
                    last = -1
                    for ev in scn.events:
                        if ev[0] not in ("start", "finish"):
                            continue
                        idx = order.get(ev[1][0])
                        if idx is None:
                            clause = "event-under-unknown-root"
                            break
                        if idx < last:
                            clause = "root-fields-overlap"
                            break
                        last = idx
                    if clause is None:
                        # at every suspension, nothing of another root may be pending
                        pend = set()
                        for kind, label in ex.sched.log:
                            if label[0] != "r":
                                continue
                            rk = label[1]
                            if kind == "suspend":
                                pend.add(label)
                                if any(l[1] != rk for l in pend):
                                    clause = "two-roots-pending-together"
                                    break
                            else:
                                pend.discard(label)
                    if clause is None and isinstance(r.get("data"), dict) and list(r["data"].keys()) != [k for k in root_keys if k in r["data"]]:
                        clause = "response-keys-not-in-document-order"
                    if clause is None:
                        starts = [e[1] for e in scn.events if e[0] == "start"]
                        if len(set(starts)) != len(starts):
                            clause = "resolver-started-twice"
                        propagated = any(n not in exp.failures for n in exp.nulled)
                        want = sorted(p for p, _, _ in exp.calls)
                        if not propagated and sorted(starts) != want:
                            clause = "resolver-set-differs"
                        if propagated and not set(starts) <= set(want):
                            clause = "resolver-set-differs"
                if clause and state["viol"] is None:
                    state["viol"] = (clause, list(ex.choices), r)

            st = sched.explore(loop, make_task, on, max_i=MAX_I[tier], max_executions=CAP[tier])
            out["counts"]["schedules"] += st["executions"]
            out["counts"]["choice_points"] += st["choice_points"]
            out["counts"]["cases"] += 1
            out["counts"]["nontrivial"] += state["nontrivial"]
            out["tables"]["roots"][str(len(root_keys))] = out["tables"]["roots"].get(str(len(root_keys)), 0) + 1
            if st["capped"]:
                out["caps"].append("schedule cap reached for %s faults=%r" % (text, faults))
            if state["viol"]:
                clause, choices, got = state["viol"]
                out["violations"].append({
                    "signature": "%s|%s" % (clause, "fault" if faults else "plain"),
                    "summary": "%s: %s [%s] variables=%r faults=%r schedule=%r -> %r; events=%r" % (
                        clause, text, cfg, variables, {str(k): v for k, v in faults.items()}, choices, got, scn.events[:12]),
                    "replay": {"doc": di, "config": cfg, "variables": variables, "faults": [[list(p), f] for p, f in faults.items()],
                               "choices": choices}})
    out["samples"].append({"document": text, "root_keys": root_keys, "failure_placements": out["counts"]["cases"]})
    return out


def finish(agg, tier):
    c = agg.counts
    return {
        "states": c.get("schedules", 0),
        "transitions": c.get("choice_points", 0),
        "traces_validated_against_impl": c.get("schedules", 0),
        "evaluations": c.get("schedules", 0),
        "distinct_nontrivial": c.get("nontrivial", 0),
        "rule": "states = complete schedules of the real engine for %d mutation documents x every failure placement (none; raise / null "
                "at each root field; raise / null at each nested field) : all completion orders of the suspended resolvers plus <= %d "
                "mid-run injection(s), under 4 concurrency configurations (all siblings gathered; the two alternating per-field assignments "
                "of parent_concurrently / list_concurrently; the engine-wide coerce_parent_concurrently=False / coerce_list_concurrently=False). non-trivial = schedules deviating from FIFO. Oracle: event log ordered by root key, never two "
                "roots pending together, response keys in document order, data and errors equal to the reference"
                % (len(DOCS), MAX_I[tier]),
        "exhaustive": True,
    }


def replay(rec):
    r = rec["replay"]
    out = run_shard((r["doc"], "quick", r.get("config", "default")))
    return out["violations"]
