"""C16 — the query cache and request history never change a response (DESIGN 4/C16, engine E4).

EVERY sequence of length <= k over an alphabet of 8 requests, each run from a fresh engine, under 5 cache
configurations; position-by-position comparison with a fresh cache-less engine answering that single request.
"""
import itertools
import json
from collections import OrderedDict
from functools import lru_cache

from vf import doc, explore, harness, schema as S
from vf.data import Scenario


PROPERTY = "C16"
LEVEL = "model_checking"
ASSUMPTIONS = ["each history starts from a freshly cooked engine (its own schema name)"]
BUDGET_S = {"quick": 600, "thorough": 3000}
DEPTH = {"quick": 4, "thorough": 5}

SDL = "type A { id: ID! a: Int } type Query { num: Int! color: String a: A hello(n: Int): String }"
SCHEMA = S.parse_sdl(SDL)
ROOT = {"num": 7, "color": "c", "a": {"id": "i1", "a": 3}, "hello": "h"}

DOC_A = "query Q($s: Boolean = false) { num @skip(if: $s) a { ...AF } } fragment AF on A { id a @include(if: $s) }"
DOC_2 = "query One { num } query Two { ...RF a { a } } fragment RF on Query { color }"
DOC_M = "query($s: Boolean = false) { x: num @skip(if: false) ...MF color } fragment MF on Query { x: num @skip(if: $s) }"
ALPHABET = [
    ("A", DOC_A, None, {}, {}),
    ("B-failing", "{ ...RF hello(n: 1) } fragment RF on Query { color }", None, None, {("hello",): "raise"}),
    ("A-other-variables", DOC_A, None, {"s": True}, {}),
    ("two-ops-One", DOC_2, "One", None, {}),
    ("two-ops-Two", DOC_2, "Two", None, {}),
    ("invalid", "{ zz num }", None, None, {}),
    ("syntax", "{ num ", None, None, {}),
    ("A-bytes", DOC_A.encode(), None, {}, {}),
]
CONFIGS = ["default", "lru1", "lru2", "spy2", "disabled"]
# a second, small alphabet: requests whose resolvers raise one shared exception *object* (histories of length 3)
SHARED = [
    ALPHABET[0],
    ALPHABET[1],
    ("shared-exception-at-hello", "{ color hello(n: 1) }", None, None, {("hello",): "raise_shared"}),
    ("shared-exception-at-a.a", "{ a { a } color }", None, None, {("a", "a"): "raise_shared"}),
    # one response key built from two field nodes that both carry directives (the second one variable-driven)
    ("merged-directives-s-false", DOC_M, None, {"s": False}, {}),
    ("merged-directives-s-true", DOC_M, None, {"s": True}, {}),
]


# a third alphabet on its own engine: the resolver reports the arguments it received and then *modifies them in place* (they are its
# own); whatever the engine keeps between requests (SDL defaults, variable defaults, cached documents) must not be affected
MUT_SDL = """
input P { a: Int = 1 l: [Int] = [1, 2] q: P }
scalar Tag
enum Shade { GREY_1 GREY_2 GREY_3 GREY_4 DARK }
input P2 { t: Tag n: Int = 3 }
input P3 { t: String n: Int = 4 inner: P2 }
type Query { f(p: P = {a: 5, l: [7]}, xs: [Int] = [1]): String e(t: Tag, n: Int, p: P, p2: P2, p3: P3, ps: [P2], sh: Shade, shs: [Shade]): String }
"""
# a fourth alphabet: the caller passes ONE variables object to every request of the history (undeclared extras are ignored, so this
# is legal); coerced values and defaults of one request must not be written into it
VARS_ALPHABET = [
    ("custom-scalar", "query($t: Tag) { e(t: $t) }"),
    ("default-1", "query($t: Tag, $n: Int = 1) { e(t: $t, n: $n) }"),
    ("default-2", "query($n: Int = 2, $p: P = {a: 3}) { e(n: $n, p: $p) }"),
    ("no-default", "query($n: Int, $p: P) { e(n: $n, p: $p) }"),
    ("input-object", "query($q: P) { e(p: $q) }"),
    # one raw object read as two different input types (custom scalar vs String field, different defaults), also nested / in a list
    ("object-as-P2", "query($r: P2) { e(p2: $r) }"),
    ("object-as-P3", "query($r: P3) { e(p3: $r) }"),
    ("object-in-list-as-P2", "query($rs: [P2]) { e(ps: $rs) }"),
    ("nested-object-as-P3", "query($w: P3) { e(p3: $w) }"),
    # refused requests whose message lists suggestions (4, 1 and 0 close names)
    ("invalid-enum-many-close", "query($g: Shade) { e(sh: $g) }"),
    ("invalid-enum-in-list", "query($gs: [Shade]) { e(shs: $gs) }"),
    ("unknown-input-field", "query($u: P2) { e(p2: $u) }"),
]
SHARED_VARS = {"t": "tg", "q": {"l": [5]}, "r": {"t": "tg"}, "rs": [{"t": "a"}, {"t": "b", "n": 1}], "w": {"t": "x", "inner": {"t": "y"}},
               "g": "GREY", "gs": ["DARK", "GREY_", "DARC"], "u": {"tt": 1, "m": 2}}
MUT_ALPHABET = [
    ("sdl-default", "{ f }", None),
    ("literal-object", "{ f(p: {a: 2}) }", None),
    ("literal-nested", "{ f(p: {q: {l: [3]}}, xs: [4]) }", None),
    ("variable-default", "query($p: P = {a: 3}, $xs: [Int] = [6]) { f(p: $p, xs: $xs) }", None),
    ("variable-value", "query($p: P, $xs: [Int]) { f(p: $p, xs: $xs) }", {"p": {"a": 4}, "xs": [8]}),
    ("variable-in-literal", "query($l: [Int] = [9]) { f(p: {l: $l}) g: f(p: {l: $l}) }", None),
]


# a fifth alphabet: a schema-level directive whose execution hook refuses requests without a token in the context; refused and
# accepted requests on valid, invalid and syntactically broken documents alternate
AUTH_SDL = """
directive @auth on SCHEMA
type Query { hello: String }
schema @auth { query: Query }
"""
AUTH_ALPHABET = [
    ("invalid-no-token", "{ hello unknownField }", {}),
    ("invalid-token", "{ hello unknownField }", {"token": "t"}),
    ("valid-no-token", "{ hello }", {}),
    ("valid-token", "{ hello }", {"token": "t"}),
    ("syntax-no-token", "{ hello ", {}),
    ("syntax-token", "{ hello ", {"token": "t"}),
    ("invalid-bytes-token", b"{ hello unknownField }", {"token": "t"}),
]


# a schema marked @nonIntrospectable: the built-in schema hook switches introspection off *while a request executes*; what a request is
# answered must not depend on whether that already happened (i.e. on earlier requests) nor on when its document was parsed
NI_SDL = """
type Query { hello: String }
schema @nonIntrospectable { query: Query }
"""
NI_ALPHABET = [
    ("valid", "{ hello }", {}),
    ("type-introspection", '{ __type(name: "Query") { name } }', {}),
    ("schema-introspection", "{ hello __schema { queryType { name } } }", {}),
    ("typename", "{ hello __typename }", {}),
    ("invalid", "{ hello unknownField }", {}),
    ("type-introspection-bytes", b'{ __type(name: "Query") { name } }', {}),
    ("syntax", "{ hello ", {}),
]
# abstract types: validating or executing one document must not change what the schema's interfaces / unions admit for later ones
ABS_SDL = """
interface Node { id: ID! }
type Cat implements Node { id: ID! lives: Int }
type Dog implements Node { id: ID! tricks: Int }
union Pet = Cat | Dog
type Query { cat: Cat nodes: [Node] pet: Pet hello: String }
"""
ABS_ALPHABET = [
    ("node-spread-in-cat", "{ cat { ... on Node { id } } }", {}),
    ("all-nodes", "{ nodes { id } }", {}),
    ("dog-fragment", "{ nodes { ... on Dog { tricks } } }", {}),
    ("pet-in-node-fragment", "{ nodes { ...PF } } fragment PF on Pet { ... on Dog { id } }", {}),
    ("impossible-spread", "{ cat { ... on Dog { id } } }", {}),
    ("pet-typename", "{ pet { __typename ... on Node { id } } }", {}),
    ("node-spread-in-cat-bytes", b"{ cat { ... on Node { id } } }", {}),
]
# deprecated enum values: introspecting with or without them must not change what later requests are answered
DEP_SDL = """
enum Color { RED GREEN @deprecated(reason: "use LIME") LIME }
type Query { fav(c: Color = GREEN): Color hello: String old: Int @deprecated }
"""
DEP_ALPHABET = [
    ("values-default", '{ __type(name: "Color") { enumValues { name } } }', {}),
    ("values-all", '{ __type(name: "Color") { enumValues(includeDeprecated: true) { name isDeprecated deprecationReason } } }', {}),
    ("deprecated-literal", "{ fav(c: GREEN) }", {}),
    ("deprecated-literal-bytes", b"{ fav(c: GREEN) }", {}),
    ("fields-default-then-all", '{ a: __type(name: "Query") { fields { name } } b: __type(name: "Query") { fields(includeDeprecated: true) { name } } }', {}),
    ("default-argument", "{ fav old }", {}),
    ("invalid-literal", "{ fav(c: PURPLE) }", {}),
]
FAMILIES = {"auth": (AUTH_SDL, AUTH_ALPHABET), "ni": (NI_SDL, NI_ALPHABET), "abs": (ABS_SDL, ABS_ALPHABET), "dep": (DEP_SDL, DEP_ALPHABET)}


class AuthDirective:
    async def on_schema_execution(self, directive_args, next_directive, schema, document, parsing_errors, operation_name, context,
                                  variables, initial_value):
        if not (context or {}).get("token"):
            raise Exception("Unauthorized: no token in the context.")
        return await next_directive(schema, document, parsing_errors, operation_name, context, variables, initial_value)


async def prefixing_coercer(exception, error):
    """the documented way of customising errors: edit the dict in place and return it (deliberately not idempotent)"""
    error["message"] = "[%s] %s" % (type(exception).__name__, error["message"])
    error.setdefault("extensions", {})["seen"] = error.get("extensions", {}).get("seen", 0) + 1
    return error


def make_auth_engine(config, family="auth"):
    from tartiflette import Directive, Resolver, create_engine
    name = harness.fresh_name("c16a")
    if family == "auth":
        Directive("auth", schema_name=name)(AuthDirective())

    @Resolver("Query.hello", schema_name=name)
    async def hello(parent, args, ctx, info):
        return "world"

    if family == "dep":
        @Resolver("Query.fav", schema_name=name)
        async def fav(parent, args, ctx, info):
            return args.get("c")

        @Resolver("Query.old", schema_name=name)
        async def old(parent, args, ctx, info):
            return 1

    if family == "abs":
        @Resolver("Query.cat", schema_name=name)
        async def cat(parent, args, ctx, info):
            return {"_typename": "Cat", "id": "c1", "lives": 9}

        # one list object per engine, handed out again on every request (an in-memory store), completed item after item
        store = [{"_typename": "Cat", "id": "c1", "lives": 9}, {"_typename": "Dog", "id": "d1", "tricks": 2}]

        @Resolver("Query.nodes", schema_name=name, list_concurrently=False)
        async def nodes(parent, args, ctx, info):
            return store

        @Resolver("Query.pet", schema_name=name)
        async def pet(parent, args, ctx, info):
            return {"_typename": "Dog", "id": "d1", "tricks": 2}

    kw = {"query_cache_decorator": None} if config == "disabled" else {"query_cache_decorator": lru_cache(maxsize=1)} if config == "lru1" else {}
    return harness.run(create_engine(FAMILIES[family][0], schema_name=name, error_coercer=prefixing_coercer, **kw)), name


def ask_auth(engine, letter):
    try:
        return norm(harness.run(engine.execute(letter[1], context=dict(letter[2]))))
    except Exception as e:  # noqa
        return "RAISED " + repr(e)


def run_auth(tier, first, family="auth"):
    alphabet = FAMILIES[family][1]
    out = {"counts": {"histories": 0, "requests": 0, "nontrivial": 0}, "tables": {}, "sets": {}, "samples": [], "violations": [],
           "machinery": []}
    ref = {}
    for letter in alphabet:
        eng, name = make_auth_engine("disabled", family)
        ref[letter[0]] = ask_auth(eng, letter)
        drop(name)
    if family == "ni" and ("disabled" not in ref["type-introspection"] or "world" not in ref["valid"]):
        out["machinery"].append("the non-introspectable engine does not behave as intended: %r" % (ref,))
    if family == "dep" and ("GREEN" in ref["values-default"] or "GREEN" not in ref["values-all"] or '"fav": "GREEN"' not in ref["deprecated-literal"]):
        out["machinery"].append("the deprecated-values engine does not behave as intended: %r" % (ref,))
    if family == "abs" and ("d1" not in ref["all-nodes"] or '"data": null' not in ref["impossible-spread"] or '"tricks": 2' not in ref["dog-fragment"]):
        out["machinery"].append("the abstract-types engine does not behave as intended: %r" % (ref,))
    if family == "auth" and ("world" not in ref["valid-token"] or "Unauthorized" not in ref["valid-no-token"]):
        out["machinery"].append("the auth engine does not behave as intended: %r" % (ref,))
    depth = 3 if tier == "quick" else 4
    for hist in itertools.product(range(len(alphabet)), repeat=depth):
        if hist[0] != first:
            continue
        for config in ("default", "lru1", "disabled"):
            eng, name = make_auth_engine(config, family)
            for pos, li in enumerate(hist):
                letter = alphabet[li]
                got = ask_auth(eng, letter)
                out["counts"]["requests"] += 1
                if got != ref[letter[0]]:
                    labels = [alphabet[i][0] for i in hist[:pos + 1]]
                    out["violations"].append({
                        "signature": "response-changed-by-history|%s|%s" % ({"auth": "schema-hook-refusals", "ni": "non-introspectable-schema", "abs": "abstract-types", "dep": "deprecated-values"}[family], letter[0]),
                        "summary": "cache=%s history=%r (schema-level hook): response #%d is %s but a fresh engine answers %s" % (
                            config, labels, pos, got[:500], ref[letter[0]][:500]),
                        "replay": {"auth_history": list(hist[:pos + 1]), "config": config}})
                    break
            out["counts"]["histories"] += 1
            drop(name)
    if first == 0:
        out["samples"].append({"family": family, "schema_hook_alphabet": [l[0] for l in alphabet], "length": depth})
    return out


def _scribble(v):
    if isinstance(v, dict):
        for x in list(v.values()):
            _scribble(x)
        v["scribbled"] = True
    elif isinstance(v, list):
        for x in v:
            _scribble(x)
        v.append(42)


def make_mut_engine(config):
    from tartiflette import Resolver, create_engine
    name = harness.fresh_name("c16m")

    @Resolver("Query.f", schema_name=name)
    async def f(parent, args, ctx, info):
        r = json.dumps(args, sort_keys=True)
        _scribble(args)
        return r

    @Resolver("Query.e", schema_name=name)
    async def e(parent, args, ctx, info):
        return json.dumps(args, sort_keys=True)

    from tartiflette import Scalar
    Scalar("Tag", schema_name=name)(harness.TagScalar())
    kw = {"query_cache_decorator": None} if config == "disabled" else {}
    return harness.run(create_engine(MUT_SDL, schema_name=name, **kw)), name


def run_shared_variables(tier, first=None):
    out = {"counts": {"histories": 0, "requests": 0, "nontrivial": 0}, "tables": {}, "sets": {}, "samples": [], "violations": [],
           "machinery": []}
    ref = {}
    for label, text in VARS_ALPHABET:
        eng, name = make_mut_engine("disabled")
        ref[label] = norm(harness.run(eng.execute(text, variables=json.loads(json.dumps(SHARED_VARS)))))
        drop(name)
        if '"errors": []' not in ref[label] and not label.startswith(("invalid-", "unknown-")):
            out["machinery"].append("shared-variables request %s does not run: %s" % (label, ref[label][:300]))
    depth = 3 if tier == "quick" else 4
    for hist in itertools.product(range(len(VARS_ALPHABET)), repeat=depth):
        if first is not None and hist[0] != first:
            continue
        for config in ("default", "disabled"):
            eng, name = make_mut_engine(config)
            variables = json.loads(json.dumps(SHARED_VARS))  # one object for the whole history
            for pos, li in enumerate(hist):
                label, text = VARS_ALPHABET[li]
                try:
                    got = norm(harness.run(eng.execute(text, variables=variables)))
                except Exception as e:  # noqa
                    got = "RAISED " + repr(e)
                out["counts"]["requests"] += 1
                if got != ref[label]:
                    labels = [VARS_ALPHABET[i][0] for i in hist[:pos + 1]]
                    out["violations"].append({
                        "signature": "response-changed-by-history|caller-variables-object-reused|%s" % label,
                        "summary": "cache=%s history=%r with one variables object %r: response #%d is %s but a fresh engine answers %s" % (
                            config, labels, SHARED_VARS, pos, got[:400], ref[label][:400]),
                        "replay": {"variables_history": list(hist[:pos + 1]), "config": config}})
                    break
            out["counts"]["histories"] += 1
            drop(name)
    if not first:
        out["samples"].append({"one_variables_object_alphabet": [l[0] for l in VARS_ALPHABET], "length": depth})
    return out


def ask_mut(engine, letter):
    label, text, variables = letter
    try:
        return norm(harness.run(engine.execute(text, variables=json.loads(json.dumps(variables)))))
    except Exception as e:  # noqa
        return "RAISED " + repr(e)


def run_mutating(tier, first=None):
    out = {"counts": {"histories": 0, "requests": 0, "nontrivial": 0}, "tables": {}, "sets": {}, "samples": [], "violations": [],
           "machinery": []}
    ref = {}
    for letter in MUT_ALPHABET:
        eng, name = make_mut_engine("disabled")
        ref[letter[0]] = ask_mut(eng, letter)
        drop(name)
        if '"errors"' in ref[letter[0]] and '"errors": []' not in ref[letter[0]]:
            out["machinery"].append("mutating-alphabet request %s does not run: %s" % (letter[0], ref[letter[0]][:300]))
    depth = 3 if tier == "quick" else 4
    for hist in itertools.product(range(len(MUT_ALPHABET)), repeat=depth):
        if first is not None and hist[0] != first:
            continue
        for config in ("default", "disabled"):
            eng, name = make_mut_engine(config)
            for pos, li in enumerate(hist):
                letter = MUT_ALPHABET[li]
                got = ask_mut(eng, letter)
                out["counts"]["requests"] += 1
                if got != ref[letter[0]]:
                    labels = [MUT_ALPHABET[i][0] for i in hist[:pos + 1]]
                    out["violations"].append({
                        "signature": "response-changed-by-history|argument-values-shared-between-requests|%s" % letter[0],
                        "summary": "cache=%s history=%r (the resolver modifies the argument values it received): response #%d is %s but a fresh "
                                   "engine answers %s" % (config, labels, pos, got[:400], ref[letter[0]][:400]),
                        "replay": {"mutating_history": list(hist[:pos + 1]), "config": config}})
                    break
            out["counts"]["histories"] += 1
            drop(name)
    if not first:
        out["samples"].append({"argument_modifying_alphabet": [l[0] for l in MUT_ALPHABET], "length": depth})
    return out


class SpyLRU:
    """a custom cache decorator (capacity 2) that exposes its keys, hits and evictions"""

    def __init__(self, capacity=2):
        self.capacity = capacity
        self.store = OrderedDict()
        self.hits = 0
        self.evictions = 0
        self.states = []

    def __call__(self, fn):
        def wrapped(query, schema):
            key = (query, id(schema))
            if key in self.store:
                self.store.move_to_end(key)
                self.hits += 1
                return self.store[key]
            value = fn(query, schema)
            self.store[key] = value
            if len(self.store) > self.capacity:
                self.store.popitem(last=False)
                self.evictions += 1
            return value
        return wrapped

    def state(self):
        return tuple(k[0] if isinstance(k[0], str) else "b:" + k[0].decode() for k in self.store)


def make_engine(config):
    kw = {}
    spy = None
    if config == "lru1":
        kw["query_cache_decorator"] = lru_cache(maxsize=1)
    elif config == "lru2":
        kw["query_cache_decorator"] = lru_cache(maxsize=2)
    elif config == "spy2":
        spy = SpyLRU(2)
        kw["query_cache_decorator"] = spy
    elif config == "disabled":
        kw["query_cache_decorator"] = None
    name = harness.fresh_name("c16")
    eng = harness.build_engine(SCHEMA, name=name, **kw)
    return eng, name, spy


def drop(name):
    harness.forget(name)  # memory only: histories never share a schema name


def norm(resp):
    if not isinstance(resp, dict):
        return repr(resp)
    errs = sorted(json.dumps(e, sort_keys=True, default=repr) for e in (resp.get("errors") or []))
    return json.dumps({"data": resp.get("data"), "errors": errs, "keys": sorted(resp)}, default=repr)


def ask(engine, letter):
    label, text, op, variables, faults = letter
    scn = Scenario(root=ROOT, faults=dict(faults))
    try:
        return norm(harness.execute(engine, text, scn, operation_name=op, variables=variables))
    except Exception as e:  # noqa
        return "RAISED " + repr(e)


_REF = {}


def reference():
    if not _REF:
        for letter in ALPHABET + SHARED[2:]:
            eng, name, _ = make_engine("disabled")
            harness.fresh_shared_errors()
            _REF[letter[0]] = ask(eng, letter)
            drop(name)
    return _REF


def shards(tier, seed):
    n = len(ALPHABET)
    return [(a, b, tier) for a in range(n) for b in range(n)] + [("shared", tier)] + [("variables", tier, k) for k in range(len(VARS_ALPHABET))] + [("auth", tier, k) for k in range(len(AUTH_ALPHABET))] + [("ni", tier, k) for k in range(len(NI_ALPHABET))] + [("abs", tier, k) for k in range(len(ABS_ALPHABET))] + [("dep", tier, k) for k in range(len(DEP_ALPHABET))] + [("mutating", tier, k) for k in range(len(MUT_ALPHABET))]


def run_shard(item):
    if item[0] == "shared":
        return run_shared(item[1])
    if item[0] in ("auth", "ni", "abs", "dep"):
        return run_auth(item[1], item[2], item[0])
    if item[0] == "variables":
        return run_shared_variables(item[1], item[2])
    if item[0] == "mutating":
        return run_mutating(item[1], item[2])
    a, b, tier = item
    k = DEPTH[tier]
    ref = reference()
    out = {"counts": {"histories": 0, "requests": 0, "nontrivial": 0, "spy_transitions": 0}, "tables": {"per_config": {}},
           "sets": {"spy_states": set(), "spy_transitions": set()}, "samples": [], "violations": [], "machinery": []}
    n = len(ALPHABET)
    for rest in itertools.product(range(n), repeat=k - 2):
        hist = (a, b) + rest
        for config in CONFIGS:
            eng, name, spy = make_engine(config)
            bad = None
            for pos, li in enumerate(hist):
                letter = ALPHABET[li]
                before = spy.state() if spy else None
                got = ask(eng, letter)
                out["counts"]["requests"] += 1
                if spy:
                    out["sets"]["spy_states"].add(repr(spy.state()))
                    out["sets"]["spy_transitions"].add(repr((before, letter[0])))
                if got != ref[letter[0]] and bad is None:
                    bad = (pos, letter[0], got)
            out["counts"]["histories"] += 1
            if spy and spy.hits and spy.evictions:
                out["counts"]["nontrivial"] += 1
            drop(name)
            if bad:
                pos, lab, got = bad
                # shortest failing history: the prefix up to the failing position
                labels = [ALPHABET[i][0] for i in hist[:pos + 1]]
                out["violations"].append({
                    "signature": "response-changed-by-history|%s|after=%s" % (lab, "+".join(sorted(set(labels[:-1]))) or "nothing"),
                    "summary": "cache=%s history=%r: response #%d (%s) is %s but a fresh cache-less engine answers %s" % (
                        config, labels, pos, lab, got[:500], ref[lab][:500]),
                    "replay": {"history": list(hist[:pos + 1]), "config": config}})
    if a == 0 and b == 2:
        out["samples"].append({"history": [ALPHABET[i][0] for i in (a, b) + (5, 0)], "cache_configs": CONFIGS})
    out["sets"] = {kk: list(vv) for kk, vv in out["sets"].items()}
    return out


def run_shared(tier):
    ref = reference()
    out = {"counts": {"histories": 0, "requests": 0, "nontrivial": 0}, "tables": {}, "sets": {}, "samples": [], "violations": [],
           "machinery": []}
    for hist in itertools.product(range(len(SHARED)), repeat=3):
        for config in ("default", "disabled"):
            eng, name, spy = make_engine(config)
            harness.fresh_shared_errors()
            for pos, li in enumerate(hist):
                letter = SHARED[li]
                got = ask(eng, letter)
                out["counts"]["requests"] += 1
                if got != ref[letter[0]]:
                    labels = [SHARED[i][0] for i in hist[:pos + 1]]
                    shared = letter[0].startswith("shared-exception")
                    out["violations"].append({
                        "signature": "response-changed-by-history|shared-exception-object" if shared else
                                     "response-changed-by-history|%s|after=%s" % (letter[0], "+".join(sorted(set(labels[:-1])))),
                        "summary": "cache=%s history=%r: response #%d is %s but a fresh engine answers %s" % (config, labels, pos, got[:400], ref[letter[0]][:400]),
                        "replay": {"shared_history": list(hist[:pos + 1]), "config": config}})
                    break
            out["counts"]["histories"] += 1
            drop(name)
    out["samples"].append({"shared_exception_alphabet": [l[0] for l in SHARED], "length": 3})
    return out


def finish(agg, tier):
    c = agg.counts
    return {
        "states": c.get("histories", 0),
        "transitions": c.get("requests", 0),
        "traces_validated_against_impl": c.get("requests", 0),
        "evaluations": c.get("requests", 0),
        "distinct_nontrivial": c.get("nontrivial", 0),
        "rule": "states = histories: EVERY sequence of length %d (prefix-closed, so all shorter ones too) over an alphabet of %d requests "
                "(valid A, failing B, A with other variables, the two operations of one document, validation-invalid, syntax error, bytes "
                "spelling of A) x %d cache configurations (default LRU 512, lru_cache(1), lru_cache(2), key-exposing LRU(2), disabled), "
                "each from a freshly cooked engine; every response compared with a fresh cache-less engine's. non-trivial = histories "
                "(key-exposing cache) with at least one cache hit AND one eviction. Plus all length-3 histories over 4 requests raising one shared "
                "exception object, and all length-%d histories over %d requests whose resolver modifies the argument values it received "
                "(SDL default, literal, nested literal, variable default, variable value, variable inside a literal), cache on / off, "
                "and over %d requests that are all given ONE variables object; and all length-3 histories over 7 requests (valid / invalid / broken "
                "document x with / without token) on an engine whose schema-level directive refuses requests without a token"
                % (DEPTH[tier], len(ALPHABET), len(CONFIGS), 3 if tier == "quick" else 4, len(MUT_ALPHABET), len(VARS_ALPHABET)),
        "distinct_cache_states_observed": len(agg.sets.get("spy_states", ())),
        "distinct_cache_state_request_transitions": len(agg.sets.get("spy_transitions", ())),
        "exhaustive": True,
    }


def replay(rec):
    r = rec["replay"]
    ref = reference()
    if "auth_history" in r:
        out = run_auth("quick", r["auth_history"][0])["violations"]
        return [v for v in out if v["replay"]["auth_history"] == r["auth_history"] and v["replay"]["config"] == r["config"]][:1]
    if "variables_history" in r:
        out = run_shared_variables("quick")["violations"]
        return [v for v in out if v["replay"]["variables_history"] == r["variables_history"] and v["replay"]["config"] == r["config"]][:1]
    if "mutating_history" in r:
        refs = {}
        for letter in MUT_ALPHABET:
            eng, name = make_mut_engine("disabled")
            refs[letter[0]] = ask_mut(eng, letter)
            drop(name)
        eng, name = make_mut_engine(r["config"])
        out = []
        for pos, li in enumerate(r["mutating_history"]):
            got = ask_mut(eng, MUT_ALPHABET[li])
            if got != refs[MUT_ALPHABET[li][0]]:
                out.append({"summary": "position %d (%s): %s vs fresh %s" % (pos, MUT_ALPHABET[li][0], got[:400], refs[MUT_ALPHABET[li][0]][:400])})
        drop(name)
        return out
    if "shared_history" in r:
        eng, name, spy = make_engine(r["config"])
        harness.fresh_shared_errors()
        out = []
        for pos, li in enumerate(r["shared_history"]):
            got = ask(eng, SHARED[li])
            if got != ref[SHARED[li][0]]:
                out.append({"summary": "position %d (%s): %s vs fresh %s" % (pos, SHARED[li][0], got[:400], ref[SHARED[li][0]][:400])})
        drop(name)
        return out
    eng, name, spy = make_engine(r["config"])
    out = []
    for pos, li in enumerate(r["history"]):
        got = ask(eng, ALPHABET[li])
        if got != ref[ALPHABET[li][0]]:
            out.append({"summary": "position %d (%s): %s vs fresh %s" % (pos, ALPHABET[li][0], got[:400], ref[ALPHABET[li][0]][:400])})
    drop(name)
    return out
