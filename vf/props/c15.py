"""C15 — concurrent requests on one engine do not influence each other (DESIGN 4/C15, engine E3).

All multisets of 2 (thorough 3) requests from a pool of 9, started as tasks on one hand-stepped loop, under ALL
interleavings of their resolver completions; then a probe request.  Oracle: every response equals the response the same
request gets when run alone on a fresh engine; the probe equals a fresh engine's answer.
"""
import asyncio
import itertools
import json

from vf import doc, explore, harness, sched, seeds
from vf.data import Scenario, build_root

PROPERTY = "C15"
LEVEL = "model_checking"
ASSUMPTIONS = ["one suspension per resolver; requests share one asyncio loop"]
BUDGET_S = {"quick": 600, "thorough": 3000}
CAP = {"quick": 30000, "thorough": 200000}
MAX_I = {"quick": 0, "thorough": 1}

DOC_A = "query Q($s: Boolean!) { num @skip(if: $s) color a { id } }"
DOC_B = "query One { num } query Two { color a { a } }"
DOC_C = "{ b { strict } num }"
DOC_D = "{ hello(n: 1) num }"
DOC_E = "{ a { a } color }"
DOC_F = "query Q($s: Boolean!) { a { id @skip(if: $s) name } }"
DOC_G = "{ ...RF color } fragment RF on Query { num a { ...AF } } fragment AF on A { id }"
DOC_H = "{ ...RF } fragment RF on Query { color hello(n: 2) }"
DOC_M = "query($s: Boolean = false) { x: num @skip(if: false) ...MF color } fragment MF on Query { x: num @skip(if: $s) }"
DOC_V = ("query A($t: Tag, $n: Int = 1, $p: P) { hello(n: $n, t: $t, p: $p) num } "
         "query B($t: Tag, $n: Int = 2, $p: P) { hello(n: $n, t: $t, p: $p) color }")
SHARED_V = {"t": "tg", "p": {"a": 1, "b": "x", "c": [2, 3]}}   # one mapping object given to both requests (and to every run): the engine must treat it as read-only
DOC_N = "query($p: Int, $x: Int!) { hello(p: {a: $p, c: [$x, 1]}) lst(xs: [$x], ps: [{a: $p}]) }"
POOL = [
    # label, text, op, variables, faults, variant, ctx-kind
    ("skip-true", DOC_A, None, {"s": True}, {}, 1, "scn"),
    ("skip-false", DOC_A, None, {"s": False}, {}, 2, "scn"),
    ("op-one", DOC_B, "One", None, {}, 1, "scn"),
    ("op-two", DOC_B, "Two", None, {}, 3, "scn"),
    ("nested-skip-true", DOC_F, None, {"s": True}, {}, 1, "scn"),
    ("nested-skip-false", DOC_F, None, {"s": False}, {}, 1, "scn"),
    ("root-fragment", DOC_G, None, None, {}, 1, "scn"),
    ("root-fragment-same-name-other-body", DOC_H, None, None, {}, 2, "scn"),
    ("shared-variables-object-op-A", DOC_V, "A", SHARED_V, {}, 1, "scn"),
    ("shared-variables-object-op-B", DOC_V, "B", SHARED_V, {}, 1, "scn"),
    ("nested-variable-1", DOC_N, None, {"p": 1, "x": 5}, {}, 1, "scn"),
    ("nested-variable-2", DOC_N, None, {"p": 2, "x": 6}, {}, 1, "scn"),
    ("merged-directives-false", DOC_M, None, {"s": False}, {}, 1, "scn"),
    ("merged-directives-true", DOC_M, None, {"s": True}, {}, 2, "scn"),
    ("failing", DOC_C, None, None, {("b", "strict"): "none"}, 1, "scn"),
    ("bytes", DOC_A.encode(), None, {"s": False}, {}, 1, "scn"),
    ("dict-context", DOC_D, None, None, {}, 2, "dict"),
    ("invalid-variables", DOC_A, None, {"s": "nope"}, {}, 1, "scn"),
    ("raising", DOC_E, None, None, {("a", "a"): "raise", ("color",): "raise_te"}, 1, "scn"),
    ("shared-exception", DOC_E, None, None, {("a", "a"): "raise_shared"}, 1, "scn"),
    ("shared-exception-other-field", DOC_E, None, None, {("color",): "raise_shared"}, 2, "scn"),
    ("enriching-its-own-library-error", DOC_E, None, None, {("color",): "raise_te_enriched"}, 1, "scn"),
    # the same long-lived error constant raised by an argument directive (argument coercion), at two different document positions
    ("shared-exception-from-argument-directive", "{ two(a: 1313) num }", None, None, {}, 1, "scn"),
    ("shared-exception-from-argument-directive-elsewhere", "{ num color\n  x: two(b: 1313) }", None, None, {}, 2, "scn"),
    ("shared-exceptions-inside-a-multipleexception", DOC_E, None, None, {("a", "a"): "raise_multi_shared"}, 1, "scn"),
    ("shared-exceptions-inside-a-multipleexception-other-field", DOC_E, None, None, {("color",): "raise_multi_shared"}, 2, "scn"),
    # an abstract type spread inside a narrower abstract type (valid: the two overlap) next to a request whose runtime types lie
    # outside that overlap: validating one document must not change what the schema's abstract types admit for another
    ("abstract-spread-in-narrower-scope", "{ named { ... on Node { id } } }", None, None, {}, 1, "scn"),
    ("runtime-type-outside-that-overlap", "{ node { ... on B { b } } }", None, None, {}, 1, "scn"),
]
# requests for the engine with a custom error coercer that annotates the error it is given (the documented customisation pattern:
# `error["extensions"]["..."] = ...`) and suspends in between: errors of different requests must not share what the coercer receives
DOC_I1 = "{ num zzFirstUnknown }"
DOC_I2 = "{ color zzSecondUnknownField }"
DOC_I3 = "{ num(zz: 1) }"
POOL_COERCER = [
    ("invalid-one", DOC_I1, None, None, {}, 1, "scn"),
    ("invalid-two-same-rule", DOC_I2, None, None, {}, 1, "scn"),
    ("invalid-other-rule", DOC_I3, None, None, {}, 1, "scn"),
    ("raising-library-error", DOC_E, None, None, {("color",): "raise_te"}, 1, "scn"),
    ("raising-library-error-elsewhere", DOC_E, None, None, {("a", "a"): "raise_te"}, 2, "scn"),
    ("shared-exception", DOC_E, None, None, {("a", "a"): "raise_shared"}, 1, "scn"),
    ("shared-exception-other-field", DOC_E, None, None, {("color",): "raise_shared"}, 2, "scn"),
    ("plain-exception", DOC_E, None, None, {("color",): "raise"}, 1, "scn"),
    ("invalid-variables", DOC_A, None, {"s": "nope"}, {}, 1, "scn"),
    ("fine", DOC_E, None, None, {}, 1, "scn"),
]
# requests for an engine whose schema is marked @nonIntrospectable and whose sibling fields are awaited one after the other (so that
# the introspection root field is reached only after an ordinary resolver has suspended): the refusal must not depend on what else is
# in flight
POOL_NI = [
    ("introspection-after-field", "{ num __schema { queryType { name } } }", None, None, {}, 1, "scn"),
    ("type-introspection-after-field", "{ color __type(name: \"A\") { name } }", None, None, {}, 1, "scn"),
    ("plain", "{ num color }", None, None, {}, 2, "scn"),
    ("plain-nested", "{ a { id } num }", None, None, {}, 1, "scn"),
    ("typename-only", "{ __typename num }", None, None, {}, 1, "scn"),
    ("invalid-enum-variable-many-close-names", "query($g: Shade) { shade(s: $g) num }", None, {"g": "GREY"}, {}, 1, "scn"),
    ("invalid-enum-variable-other-value", "query($g: [Shade]) { shades(s: $g) }", None, {"g": ["GREY_", "DARC"]}, {}, 1, "scn"),
]
NI_SDL = (seeds.K_SDL + "\nschema @nonIntrospectable { query: Query mutation: Mutation subscription: Subscription }\n"
          + "enum Shade { GREY_1 GREY_2 GREY_3 GREY_4 DARK }\nextend type Query { shade(s: Shade): String shades(s: [Shade]): String }\n")
NI_KW = {"sdl": NI_SDL, "typecfg": {"resolver_kwargs_all": {"parent_concurrently": False}}}
COERCER_SCHED = [None]


async def annotating_coercer(exception, error):
    ext = error.get("extensions")
    if ext is None:
        ext = error["extensions"] = {}
    ext["digest"] = "%d:%s" % (len(error["message"]), error["message"])
    if COERCER_SCHED[0] is not None:
        await COERCER_SCHED[0].point(("coercer", error["message"][:20]))
    ext["path_seen"] = repr(error.get("path"))
    return error


PROBE = ("probe", DOC_A, None, {"s": False}, {}, 4, "scn")


def norm(resp):
    if not isinstance(resp, dict):
        return repr(resp)
    errs = sorted(json.dumps(e, sort_keys=True, default=repr) for e in (resp.get("errors") or []))
    return json.dumps({"data": resp.get("data"), "errors": errs, "keys": sorted(resp.keys())}, default=repr)


def mk_scn(schema, req):
    label, text, op, variables, faults, variant, ctxkind = req
    scn = Scenario(root=build_root(schema, "Query", variant), faults=dict(faults), label=label)
    return scn


def ctx_of(scn, kind):
    return {"scn": scn, "tag": scn.label} if kind == "dict" else scn


def alone(schema, req, coercer=False):
    """the request run alone on a fresh engine (no cache history)"""
    COERCER_SCHED[0] = None
    engine = harness.build_engine(schema, **(NI_KW if coercer == "ni" else {"error_coercer": annotating_coercer} if coercer else {}))
    scn = mk_scn(schema, req)
    scn.reset()
    harness.CURRENT[0] = scn
    harness.fresh_shared_errors()
    label, text, op, variables, faults, variant, ctxkind = req
    resp = norm(harness.run(engine.execute(text, operation_name=op, context=ctx_of(scn, ctxkind), variables=variables,
                                           initial_value=scn.root)))
    _ALONE_CALLS[(coercer, label)] = calls_of(scn)
    return resp


_ALONE_CALLS = {}


def calls_of(scn):
    """what the resolvers of one request were called with: (path, arguments), order-free"""
    return sorted((p, a) for p, _, a in scn.log)


def shards(tier, seed):
    k = 2
    combos = list(itertools.combinations_with_replacement(range(len(POOL)), k))
    if tier == "thorough":
        combos += [c for c in itertools.combinations_with_replacement(range(len(POOL)), 3) if len(set(c)) >= 2][::3]
    items = [(c, tier) for c in combos]
    items += [(c, tier, "coercer") for c in itertools.combinations_with_replacement(range(len(POOL_COERCER)), 2)]
    items += [(c, tier, "ni") for c in itertools.combinations_with_replacement(range(len(POOL_NI)), 2)]
    if tier == "thorough":
        items += [(c, tier, "ni") for c in itertools.combinations_with_replacement(range(len(POOL_NI)), 3)]
        items += [(c, tier, "coercer") for c in itertools.combinations_with_replacement(range(len(POOL_COERCER)), 3) if len(set(c)) >= 2][::3]
    return items


_ALONE = {}


def run_shard(item):
    combo, tier = item[0], item[1]
    coercer = item[2] if len(item) > 2 else False  # False | "coercer" | "ni"
    pool = POOL_NI if coercer == "ni" else POOL_COERCER if coercer else POOL
    schema = seeds.K
    out = {"counts": {"schedules": 0, "choice_points": 0, "multisets": 1, "nontrivial": 0, "probes": 0}, "tables": {"outcomes": {}},
           "sets": {}, "samples": [], "violations": [], "machinery": [], "caps": []}
    for i in set(combo) | {-1}:
        req = PROBE if i == -1 else pool[i]
        if (coercer, req[0]) not in _ALONE:
            _ALONE[(coercer, req[0])] = alone(schema, req, coercer)
    # ONE engine shared by every multiset this worker handles
    engine = (explore.engine_for("K-c15-ni", schema, **NI_KW) if coercer == "ni"
              else explore.engine_for("K-c15-coercer", schema, error_coercer=annotating_coercer) if coercer else explore.engine_for("K-c15", schema))
    loop = sched.VLoop()
    reqs = [pool[i] for i in combo]
    scns = [mk_scn(schema, r) for r in reqs]
    state = {"viol": None, "nontrivial": 0}
    probe_scn = mk_scn(schema, PROBE)

    def make_task(s):
        for scn in scns:
            scn.reset()
            scn.sched = s
        COERCER_SCHED[0] = s if coercer == "coercer" else None
        harness.CURRENT[0] = None
        harness.fresh_shared_errors()

        async def both():
            return await asyncio.gather(*[
                engine.execute(r[1], operation_name=r[2], context=ctx_of(scn, r[6]), variables=r[3], initial_value=scn.root)
                for r, scn in zip(reqs, scns)], return_exceptions=True)

        return both()

    def on(ex):
        if any(ex.choices):
            state["nontrivial"] += 1
        bad = None
        if ex.status != "ok":
            bad = (ex.status, "all", repr(ex.exception))
        else:
            for r, resp in zip(reqs, ex.result):
                if isinstance(resp, BaseException):
                    bad = ("execute-raised", r[0], repr(resp))
                    break
                if norm(resp) != _ALONE[(coercer, r[0])]:
                    bad = ("response-differs-from-solo-run", r[0], "got %s alone %s" % (norm(resp), _ALONE[(coercer, r[0])]))
                    break
            if bad is None:
                # ... and its resolvers were called with what they are called with in the solo run (arguments of another request
                # must not reach them even when the response does not show them)
                for r, scn_ in zip(reqs, scns):
                    if calls_of(scn_) != _ALONE_CALLS[(coercer, r[0])]:
                        bad = ("resolver-calls-differ-from-solo-run", r[0], "got %r alone %r" % (calls_of(scn_)[:6], _ALONE_CALLS[(coercer, r[0])][:6]))
                        break
        if bad is None:
            # probe afterwards behaves as on a fresh engine
            probe_scn.reset()
            COERCER_SCHED[0] = None
            harness.CURRENT[0] = probe_scn
            p = harness.run(engine.execute(PROBE[1], operation_name=PROBE[2], context=probe_scn, variables=PROBE[3],
                                           initial_value=probe_scn.root))
            out["counts"]["probes"] += 1
            if norm(p) != _ALONE[(coercer, "probe")]:
                bad = ("probe-differs-from-fresh-engine", "probe", "got %s fresh %s" % (norm(p), _ALONE[(coercer, "probe")]))
        if bad and state["viol"] is None:
            state["viol"] = bad + (list(ex.choices),)

    # one injection (a callback of another task run between two steps) only for pairs: triples already have ~10^5 completion orders
    st = sched.explore(loop, make_task, on, max_i=MAX_I[tier] if len(combo) == 2 else 0, max_executions=CAP[tier])
    out["counts"]["schedules"] += st["executions"]
    out["counts"]["choice_points"] += st["choice_points"]
    out["counts"]["nontrivial"] += state["nontrivial"]
    if st["capped"]:
        out["caps"].append("schedule cap reached for %r" % ([r[0] for r in reqs],))
    if state["viol"]:
        clause, victim, detail, choices = state["viol"]
        out["violations"].append({
            "signature": ("%s|non-introspectable-schema" % clause) if coercer == "ni"
            else ("%s|annotating-error-coercer" % clause) if coercer
            else ("%s|shared-exception-object" % clause) if victim.startswith("shared-exception")
            else "%s|victim=%s|with=%s" % (clause, victim, "+".join(sorted(r[0] for r in reqs))),
            "summary": "%s: requests %r victim %s schedule %r: %s" % (clause, [r[0] for r in reqs], victim, choices, detail[:900]),
            "replay": {"combo": list(combo), "choices": choices, "coercer": coercer}})
    out["samples"].append({"requests": [r[0] for r in reqs], "schedules": st["executions"]})
    return out


def finish(agg, tier):
    c = agg.counts
    return {
        "states": c.get("schedules", 0),
        "transitions": c.get("choice_points", 0),
        "traces_validated_against_impl": c.get("schedules", 0) + c.get("probes", 0),
        "evaluations": c.get("schedules", 0),
        "distinct_nontrivial": c.get("nontrivial", 0),
        "rule": "states = complete interleavings of %s requests in flight on ONE engine: every multiset of 2 from a pool of %d requests "
                "(same text / other variables, same text / other operation, other documents, failing, raising, bytes spelling, dict "
                "context, invalid variables, a shared exception object)%s, all completion orders of their suspended resolvers; after each "
                "interleaving a probe request. non-trivial = interleavings deviating from FIFO. Every response must equal the solo run "
                "on a fresh engine. The same over a second pool of %d erroring requests (two invalid documents breaking the same rule, "
                "another rule, library / shared / plain exceptions, invalid variables) on an engine whose custom error coercer annotates "
                "the error dict it receives and suspends in between (a choice point of the explorer), and over a third pool (introspection and "
                "ordinary requests) on an engine whose schema is @nonIntrospectable and whose sibling fields run one after the other" % ("2" if tier == "quick" else "2-3", len(POOL), " and a third of the 3-multisets" if tier == "thorough" else "", len(POOL_COERCER)),
        "exhaustive": True,
    }


def replay(rec):
    r = rec["replay"]
    return run_shard((tuple(r["combo"]), "quick") + ((r["coercer"],) if r.get("coercer") else ()))["violations"]
