"""C12 — an engine is never built from an SDL that breaks a checked schema rule (DESIGN 4/C12).

For every valid base model (seeds and every model within d rewrites) the catalogue SX of schema-violation rewrites is
applied at every site; E5's schema validator certifies that the mutated SDL really is invalid.  Also: a scalar without
implementation, non-awaitable directive hooks (each hook name), every single-token deletion of a small SDL.
Oracle: create_engine raises and yields no engine.
"""
from dataclasses import replace

from vf import boot  # noqa: F401
from vf import doc, explore, gqlparse, harness, schema as S, schema_rewrite as SR
from vf.doc import IntV
from vf.model import schema_validate as SV
from vf.schema import ArgDef, FieldDef, EnumVal, TypeDef, DirectiveDef, DirUse

from tartiflette import Directive, Scalar, create_engine

PROPERTY = "C12"
LEVEL = "model_checking"
ASSUMPTIONS = ["E5's schema validator (vf/model/schema_validate.py) certifies the injected violation"]
BUDGET_S = {"quick": 600, "thorough": 1800}
DEPTH = {"quick": 1, "thorough": 2}

BASE_SDL = """
directive @mark(n: Int = 1) on FIELD_DEFINITION | OBJECT
enum Color { RED GREEN }
scalar Tag
interface Node { id: ID! link(x: Int): Node }
type A implements Node { id: ID! link(x: Int): Node a: Int @mark }
type B implements Node { id: ID! link(x: Int): Node b(c: Color = RED, p: P): Float }
union AB = A | B
input P { a: Int = 1 q: P }
type Query { node: Node ab: AB a(t: Tag): A }
type Mutation { go: Int }
type Subscription { ev: Int }
"""
TWO_IFACES_SDL = """
enum Color { RED GREEN }
interface Node { id: ID link(x: Int): Node tags(ids: [ID]): [String] }
interface Linked { link(x: Int, y: Color): Linked id: ID! }
type A implements Node & Linked { id: ID! link(x: Int, y: Color): A a: Int tags(ids: [ID]): [String] }
type B implements Linked & Node { link(x: Int, y: Color): B id: ID! b: Float tags(ids: [ID]): [String] }
type C implements Node { id: ID link(x: Int): Node tags(ids: [ID]): [String] }
type Query { node: Node linked: Linked a: A b: B c: C }
"""
SMALL_SDL = ("directive @dd(x: Int = 1) on FIELD_DEFINITION | OBJECT interface N { id: ID! } interface M { a: [Int!] } "
             "type A implements N & M { id: ID! a(x: Int = 1): [Int!] @dd(x: 2) } type B { b: Int } union U = A | B enum E { X Y } "
             "input I { a: Int } type Query { a: A u: U e(i: I): E } schema { query: Query }")
HOOKS = ["on_argument_execution", "on_post_input_coercion", "on_field_execution", "on_pre_output_coercion", "on_introspection",
         "on_post_bake", "on_field_collection", "on_fragment_spread_collection", "on_inline_fragment_collection", "on_schema_execution",
         "on_schema_subscription"]


def seed_models():
    from vf.props import c11
    return [("base", S.parse_sdl(BASE_SDL)), ("renamed", S.parse_sdl(c11.RENAMED_SDL)), ("deprecations", S.parse_sdl(c11.DEPR_SDL)),
            ("two-interfaces", S.parse_sdl(TWO_IFACES_SDL))]


def swap_wrapper(t):
    """the same named type at the same depth with the outermost wrapper exchanged: [T] <-> T!  (None for a bare named type)"""
    if t[0] == "list":
        return ("nn", t[1])
    if t[0] == "nn":
        return ("list", t[1])
    return None


def with_type(schema, t):
    return schema.with_type(t)


def sx(schema):
    """yield (rule, site, sdl text | None, mutated model | None, extra raw definitions)"""
    objs = [t for t in schema.types if t.kind == "OBJECT"]
    ifaces = [t for t in schema.types if t.kind == "INTERFACE"]
    unions = [t for t in schema.types if t.kind == "UNION"]
    enums = [t for t in schema.types if t.kind == "ENUM"]
    inputs = [t for t in schema.types if t.kind == "INPUT_OBJECT"]

    def model(rule, site, m):
        return rule, site, m, ()

    def raw(rule, site, *extra):
        return rule, site, schema, tuple(extra)

    und = ("named", "ZzUndefined")
    for t in objs[:2] + ifaces[:1]:
        impl = bool(t.interfaces) or t.kind == "INTERFACE"
        yield model("undefined-type", t.kind.lower() + "-field", with_type(schema, replace(t, fields=t.fields + (FieldDef("zz", und),))))
        yield model("undefined-type", t.kind.lower() + "-field-wrapped", with_type(schema, replace(t, fields=t.fields + (FieldDef("zz", ("nn", ("list", ("nn", und)))),))))
        yield model("undefined-type", t.kind.lower() + "-field-argument", with_type(schema, replace(t, fields=t.fields + (FieldDef("zz", ("named", "Int"), (ArgDef("x", und),)),))))
        yield raw("undefined-type", t.kind.lower() + "-field-via-extend", "extend %s %s { zz: ZzUndefined }" % ("type" if t.kind == "OBJECT" else "interface", t.name))
        # ... on the *arguments* of a field added by an extension (for the query root these come after the injected introspection fields)
        kw = "type" if t.kind == "OBJECT" else "interface"
        yield raw("undefined-type", t.kind.lower() + "-field-argument-via-extend", "extend %s %s { zz(x: ZzUndefined): Int }" % (kw, t.name))
        yield raw("non-input-type", t.kind.lower() + "-argument-via-extend", "extend %s %s { zz(x: [%s!]): Int }" % (kw, t.name, objs[0].name))
        yield model("non-input-type", t.kind.lower() + "-argument", with_type(schema, replace(t, fields=t.fields + (FieldDef("zz", ("named", "Int"), (ArgDef("x", ("named", objs[0].name)),)),))))
        yield model("non-input-type", t.kind.lower() + "-argument-wrapped", with_type(schema, replace(t, fields=t.fields + (FieldDef("zz", ("named", "Int"), (ArgDef("x", ("list", ("nn", ("named", objs[0].name)))),)),))))
        if ifaces:
            yield model("non-input-type", t.kind.lower() + "-argument-interface", with_type(schema, replace(t, fields=t.fields + (FieldDef("zz", ("named", "Int"), (ArgDef("x", ("named", ifaces[0].name)),)),))))
        if unions:
            yield model("non-input-type", t.kind.lower() + "-argument-union", with_type(schema, replace(t, fields=t.fields + (FieldDef("zz", ("named", "Int"), (ArgDef("x", ("named", unions[0].name)),)),))))
    for t in inputs[:2]:
        yield model("undefined-type", "input-field", with_type(schema, replace(t, fields=t.fields + (ArgDef("zz", und),))))
        yield model("non-input-type", "input-field", with_type(schema, replace(t, fields=t.fields + (ArgDef("zz", ("named", objs[0].name)),))))
        yield model("non-input-type", "input-field-wrapped", with_type(schema, replace(t, fields=t.fields + (ArgDef("zz", ("nn", ("list", ("named", objs[0].name)))),))))
        yield raw("invalid-extend", "input-field-repeated", "extend input %s { %s: Int }" % (t.name, t.fields[0].name))
        yield raw("undefined-type", "input-field-via-extend", "extend input %s { zz: ZzUndefined }" % t.name)
    yield model("undefined-type", "directive-argument", replace(schema, directives=schema.directives + (DirectiveDef("zzd", (ArgDef("x", und),), ("FIELD",)),)))
    yield model("non-input-type", "directive-argument", replace(schema, directives=schema.directives + (DirectiveDef("zzd", (ArgDef("x", ("named", objs[0].name)),), ("FIELD",)),)))
    # interface contract: every (object, interface it implements, interface field) and every argument position; the mutated field may
    # still satisfy the object's *other* interfaces (TWO_IFACES_SDL has interfaces sharing field names with different demands)
    done = set()
    first_pair = True
    for t in objs:
        for ipos, iname in enumerate(t.interfaces):
            it = schema.type(iname)
            tag = "object" if first_pair else "object|interface-%d-of-%d" % (ipos + 1, len(t.interfaces))
            first_pair = False
            for ifield in it.fields:
                idx = [i for i, f in enumerate(t.fields) if f.name == ifield.name][0]
                f = t.fields[idx]

                def withf(nf):
                    return with_type(schema, replace(t, fields=t.fields[:idx] + ((nf,) if nf else ()) + t.fields[idx + 1:]))

                cands = [("interface-field-missing", "", None),
                         ("interface-field-type", "|other-scalar", replace(f, type=("named", "Boolean"))),
                         ("interface-field-type", "|list-for-named", replace(f, type=("list", f.type)))]
                if f.type[0] == "nn":
                    cands.append(("interface-field-type", "|nullable-for-non-null", replace(f, type=f.type[1])))
                swapped = swap_wrapper(f.type)
                if swapped is not None:
                    cands.append(("interface-field-type", "|list-wrapper-for-non-null-wrapper", replace(f, type=swapped)))
                for other in objs + ifaces:
                    if other.name not in (doc.named_of(f.type), schema.query) and doc.named_of(f.type) not in ("ID", "Int", "String", "Float", "Boolean"):
                        cands.append(("interface-field-type", "|other-composite", replace(f, type=("named", other.name))))
                for ai, ia in enumerate(ifield.args):
                    pos = [k for k, a in enumerate(f.args) if a.name == ia.name][0]
                    cands.append(("interface-argument-missing", "|arg-%d" % ai, replace(f, args=f.args[:pos] + f.args[pos + 1:])))
                    cands.append(("interface-argument-type", "|arg-%d" % ai, replace(f, args=f.args[:pos] + (replace(f.args[pos], type=("named", "String")),) + f.args[pos + 1:])))
                    sw = swap_wrapper(f.args[pos].type)
                    if sw is not None:
                        cands.append(("interface-argument-type", "|arg-%d-wrapper-swapped" % ai,
                                      replace(f, args=f.args[:pos] + (replace(f.args[pos], type=sw),) + f.args[pos + 1:])))
                    cands.append(("interface-argument-type", "|arg-%d-non-null-for-nullable" % ai,
                                  replace(f, args=f.args[:pos] + (replace(f.args[pos], type=("nn", f.args[pos].type)),) + f.args[pos + 1:])))
                cands.append(("interface-extra-required-argument", "", replace(f, args=f.args + (ArgDef("extra", ("nn", ("named", "Int"))),))))
                for rule, sub, nf in cands:
                    key = (t.name, ifield.name, rule, sub, repr(nf))
                    if key in done:
                        continue
                    done.add(key)
                    yield model(rule, tag + sub, withf(nf))
    for t in objs:
        if not t.interfaces and ifaces and t.name not in (schema.query, schema.mutation, schema.subscription):
            yield raw("interface-field-missing", "obligation-added-by-extend", "extend type %s implements %s" % (t.name, ifaces[0].name))
            break
    o = [t for t in objs if t.name not in (schema.query,)][0] if len(objs) > 1 else objs[0]
    yield model("implements-non-interface", "object-type", with_type(schema, replace(o, interfaces=o.interfaces + (objs[0].name if objs[0].name != o.name else objs[-1].name,))))
    yield model("implements-undefined", "undefined-name", with_type(schema, replace(o, interfaces=o.interfaces + ("ZzUndefined",))))
    if enums:
        yield model("implements-non-interface", "enum", with_type(schema, replace(o, interfaces=o.interfaces + (enums[0].name,))))
    # roots
    q = schema.type(schema.query)
    yield model("query-root-missing", "type-removed", replace(schema, types=tuple(t for t in schema.types if t.name != schema.query),
                                                              schema_block=False if schema.query == "Query" else schema.schema_block))
    yield model("query-root-missing", "schema-block-names-undefined", replace(schema, query="ZzUndefinedRoot", schema_block=True))
    yield model("undefined-root:mutation", "arbitrary-name", replace(schema, mutation="ZzUndefinedRoot", schema_block=True))
    yield model("undefined-root:subscription", "arbitrary-name", replace(schema, subscription="ZzUndefinedRoot", schema_block=True))
    if schema.type("Mutation") is None:
        yield model("undefined-root:mutation", "default-name", replace(schema, mutation="Mutation", schema_block=True))
    if schema.type("Subscription") is None:
        yield model("undefined-root:subscription", "default-name", replace(schema, subscription="Subscription", schema_block=True))
    # ... named through `extend schema` (last definition of the SDL, and followed by another extension)
    if schema.mutation is None:
        yield raw("undefined-root:mutation", "via-extend-schema", "extend schema { mutation: ZzUndefinedRoot }")
        yield raw("undefined-root:mutation", "via-extend-schema-then-more", "extend schema { mutation: ZzUndefinedRoot }\nextend type %s { zzLater: Int }" % schema.query)
    if schema.subscription is None:
        yield raw("undefined-root:subscription", "via-extend-schema", "extend schema { subscription: ZzUndefinedRoot }")
    # objects without fields
    yield model("no-fields:object", "plain", schema.add_type(TypeDef("OBJECT", "ZzEmpty")))
    yield model("no-fields:object", "query-root", with_type(schema, replace(q, fields=())))
    # unions
    for u in unions[:1]:
        yield model("union-contains-itself", "definition", with_type(schema, replace(u, members=u.members + (u.name,))))
        yield raw("union-contains-itself", "via-extend", "extend union %s = %s" % (u.name, u.name))
        yield raw("invalid-extend", "union-member-repeated", "extend union %s = %s" % (u.name, u.members[0]))
    # enums
    for e in enums[:1]:
        yield model("duplicate-enum-value", "definition", with_type(schema, replace(e, values=e.values + (e.values[0],))))
        yield raw("duplicate-enum-value", "definition+extend", "extend enum %s { %s }" % (e.name, e.values[0].name))
        yield raw("duplicate-enum-value", "inside-one-extend", "extend enum %s { ZZ ZZ }" % e.name)
        # the repeated value differs from the first one by its decorations only (a description, a directive): still the same name
        dep = (DirUse("deprecated", (("reason", doc.StrV("old")),)),)
        yield model("duplicate-enum-value", "definition-second-deprecated", with_type(schema, replace(e, values=e.values + (replace(e.values[0], dirs=dep),))))
        yield model("duplicate-enum-value", "definition-first-deprecated",
                    with_type(schema, replace(e, values=(replace(e.values[0], dirs=dep),) + e.values[1:] + (replace(e.values[0], dirs=()),))))
        yield model("duplicate-enum-value", "definition-second-described", with_type(schema, replace(e, values=e.values + (replace(e.values[0], desc="again"),))))
        yield raw("duplicate-enum-value", "definition+extend-deprecated", "extend enum %s { %s @deprecated }" % (e.name, e.values[0].name))
        yield raw("duplicate-enum-value", "inside-one-extend-described", 'extend enum %s { ZZ "doc" ZZ }' % e.name)
    # duplicates
    yield model("duplicate-type", "same-kind", replace(schema, types=schema.types + (o,)))
    yield model("duplicate-type", "other-kind", schema.add_type(TypeDef("ENUM", o.name, values=(EnumVal("X"),))))
    yield model("duplicate-type", "scalar-vs-object", schema.add_type(TypeDef("SCALAR", o.name)))
    if schema.directives:
        yield model("duplicate-directive", "same", replace(schema, directives=schema.directives + (schema.directives[0],)))
    else:
        yield model("duplicate-directive", "same", replace(schema, directives=(DirectiveDef("zzd", (), ("FIELD",)), DirectiveDef("zzd", (), ("FIELD",)))))
    # extends
    yield raw("invalid-extend", "unknown-target-type", "extend type ZzUnknown { a: Int }")
    yield raw("invalid-extend", "unknown-target-enum", "extend enum ZzUnknown { A }")
    yield raw("invalid-extend", "unknown-target-union", "extend union ZzUnknown = %s" % o.name)
    yield raw("invalid-extend", "unknown-target-input", "extend input ZzUnknown { a: Int }")
    yield raw("invalid-extend", "unknown-target-interface", "extend interface ZzUnknown { a: Int }")
    yield raw("invalid-extend", "unknown-target-scalar", "extend scalar ZzUnknown @deprecated")
    if enums:
        yield raw("invalid-extend", "wrong-kind-type-on-enum", "extend type %s { a: Int }" % enums[0].name)
        yield raw("invalid-extend", "wrong-kind-enum-on-object", "extend enum %s { A }" % o.name)
    if inputs:
        yield raw("invalid-extend", "wrong-kind-input-on-object", "extend input %s { a: Int }" % o.name)
        yield raw("invalid-extend", "wrong-kind-type-on-input", "extend type %s { a: Int }" % inputs[0].name)
    if unions:
        yield raw("invalid-extend", "wrong-kind-union-on-object", "extend union %s = %s" % (o.name, o.name))
    yield raw("invalid-extend", "field-repeated", "extend type %s { %s: Int }" % (o.name, o.fields[0].name))
    # the invalid extension among several valid ones, of the same and of another type, at every position
    others = [t for t in objs if t.name != o.name]
    if others:
        bad = "extend type %s { %s: Int }" % (o.name, o.fields[0].name)
        ok_same = ["extend type %s { zzs%d: Int }" % (o.name, k) for k in range(2)]
        ok_other = "extend type %s { zzo: Int }" % others[0].name
        for label, seq in (("first-of-T-U-T", [bad, ok_other, ok_same[0]]), ("last-of-T-U-T", [ok_same[0], ok_other, bad]),
                           ("middle-of-T-T-T", [ok_same[0], bad, ok_same[1]]), ("first-of-T-U-T-U", [bad, ok_other, ok_same[0], "extend type %s { zzo2: Int }" % others[0].name]),
                           ("middle-of-U-T-U", [ok_other, bad, "extend type %s { zzo2: Int }" % others[0].name])):
            yield raw("invalid-extend", "field-repeated|" + label, *seq)
        for t in objs:
            if t.interfaces and t.name != others[0].name:
                badi = "extend type %s implements %s" % (t.name, t.interfaces[0])
                yield raw("invalid-extend", "interface-repeated|first-of-T-U-T", badi, ok_other, "extend type %s { zzi: Int }" % t.name)
                break
    for t in objs:
        if t.interfaces:
            yield raw("invalid-extend", "interface-repeated", "extend type %s implements %s" % (t.name, t.interfaces[0]))
            break
    for t in objs:
        if t.dirs:
            yield raw("invalid-extend", "directive-repeated", "extend type %s @%s" % (t.name, t.dirs[0].name))
            break


def try_build(sdl, schema_for_registration, skip_scalars=(), directive_impl=None):
    """-> (built: bool, detail)"""
    name = harness.fresh_name("c12")
    try:
        harness.register(schema_for_registration, name, resolvers=set(), skip_scalars=skip_scalars, directive_impl=directive_impl)
    except Exception as e:  # noqa
        return False, "registration raised %r" % (e,)
    try:
        eng = harness.run(create_engine(sdl, schema_name=name))
    except BaseException as e:  # noqa
        return False, repr(e)[:300]
    finally:
        pass
    ok = eng is not None
    harness.forget(name)
    return ok, "engine built"


def registration_model(schema):
    """a model good enough to register implementations for every scalar / directive the SDL mentions"""
    seen = set()
    types = []
    for t in schema.types:
        if t.kind == "SCALAR" and t.name not in seen:
            seen.add(t.name)
            types.append(t)
    dirs = []
    for d in schema.directives:
        if d.name not in seen:
            seen.add(d.name)
            dirs.append(d)
    return S.Schema(tuple(types), tuple(dirs), None, None, None)


def shards(tier, seed):
    n = 4 if tier == "quick" else 16
    items = [("sx", si, k, n, tier) for si in range(len(seed_models())) for k in range(n)]
    items += [("scalar",), ("hooks",), ("syntax",), ("valid",)]
    return items


def run_shard(item):
    out = {"counts": {"evaluations": 0, "mutated": 0, "bases": 0, "not_violating": 0, "refused": 0}, "tables": {"rule_site": {}},
           "sets": {}, "samples": [], "violations": [], "machinery": []}

    def judge(rule, site, sdl, reg_model, label, **kw):
        out["counts"]["evaluations"] += 1
        built, detail = try_build(sdl, reg_model, **kw)
        key = "%s|%s" % (rule, site)
        out["tables"]["rule_site"][key] = out["tables"]["rule_site"].get(key, 0) + 1
        if built:
            out["violations"].append({"signature": "engine-built|%s|%s" % (rule, site),
                                      "summary": "an engine was built from an SDL breaking '%s' at %s (%s):\n%s" % (rule, site, label, sdl[-700:]),
                                      "replay": {"sdl": sdl, "rule": rule, "site": site}})
        else:
            out["counts"]["refused"] += 1

    if item[0] == "sx":
        _, si, k, n, tier = item
        label, seed = seed_models()[si]
        bases = [(seed, ())]
        if DEPTH[tier] >= 1:
            level1 = []
            for kind, site, s2 in SR.neighbours(seed, kinds=("S1", "S5", "S6", "S12", "S8")):
                if not SV.violations(s2):
                    level1.append((s2, ((kind, site),)))
            bases += level1
            if DEPTH[tier] >= 2:
                seen = {S.print_sdl(b) for b, _ in bases}
                for b1, trail in level1:
                    for kind, site, s2 in SR.neighbours(b1, kinds=("S1", "S5", "S6", "S12", "S2", "S3")):
                        key = S.print_sdl(s2)
                        if key not in seen and not SV.violations(s2):
                            seen.add(key)
                            if len(seen) % 4 == 0:  # every fourth distinct level-2 base (the catalogue SX is applied to each in full)
                                bases.append((s2, trail + ((kind, site),)))
        bases = [b for i, b in enumerate(bases) if i % n == k]
        for base, trail in bases:
            if SV.violations(base):
                out["machinery"].append("base model invalid: %s" % sorted(SV.violations(base)))
                continue
            out["counts"]["bases"] += 1
            # the base itself must build (otherwise refusing its mutants proves nothing)
            ok, detail = try_build(S.print_sdl(base), registration_model(base))
            if not ok:
                out["machinery"].append("valid base model does not build (%s): %s" % (label, detail))
                continue
            for rule, site, m, extra in sx(base):
                if extra:
                    sdl = S.print_sdl(m) + "\n" + "\n".join(extra) + "\n"
                    try:
                        merged = S.parse_sdl(sdl)
                        bad = SV.violations(merged)
                        certified = bool(bad) or rule == "invalid-extend"
                    except (AssertionError, KeyError):
                        certified = True  # extension of an unknown target / of the wrong kind cannot even be folded
                else:
                    sdl = S.print_sdl(m)
                    bad = SV.violations(m)
                    certified = any(b.split(":")[0] == rule.split(":")[0] or b == rule for b in bad)
                if not certified:
                    out["counts"]["not_violating"] += 1
                    continue
                out["counts"]["mutated"] += 1
                judge(rule, site, sdl, registration_model(m), label)
            if len(out["samples"]) < 1:
                out["samples"].append({"base": label, "rewrites": [list(t) for t in trail], "violation_kinds": sorted({r for r, _, _, _ in sx(base)})})
    elif item[0] == "scalar":
        for sdl, missing in (("scalar Money type Query { m: Money }", "Money"), ("scalar Money scalar Other type Query { m: Money o(x: Other): Int }", "Other"),
                             ("scalar Unused type Query { a: Int }", "Unused")):
            m = S.parse_sdl(sdl)
            judge("scalar-without-implementation", "custom-scalar", sdl, registration_model(m), "scalar", skip_scalars=(missing,))
            out["counts"]["mutated"] += 1
        out["samples"].append({"scalar_without_implementation": True})
    elif item[0] == "hooks":
        sdl = "directive @h on FIELD_DEFINITION | SCHEMA | FIELD\ntype Query { a: Int @h }"
        m = S.parse_sdl(sdl)
        for hook in HOOKS:
            def sync_hook(self, *a, **k):
                return None
            impl = type("Bad_" + hook, (), {hook: sync_hook})()
            judge("directive-hook-not-awaitable", hook, sdl, registration_model(m), "hooks", directive_impl={"h": impl})
            out["counts"]["mutated"] += 1
        out["samples"].append({"non_awaitable_hooks": HOOKS})
    elif item[0] == "syntax":
        toks = gqlparse.tokenize(SMALL_SDL.encode())[:-1]
        for t in toks:
            s, e = t.c0 - 1, t.c1 - 1
            sdl = SMALL_SDL[:s] + SMALL_SDL[e:]
            try:
                m = S.parse_sdl(sdl)
                bad = SV.violations(m)
                parses = True
            except Exception:
                parses, bad, m = False, None, None
            if parses and not bad:
                continue  # the deletion left a valid schema
            out["counts"]["mutated"] += 1
            judge("syntax" if not parses else "after-deletion:" + sorted(bad)[0].split(":")[0], "token-deleted", sdl,
                  registration_model(m) if m else S.Schema((), (), None, None, None), "syntax")
        for sdl in ("", "   ", "type", "type Query {", "type Query { a Int }", "type Query { a: }", "type Query { a: Int } }", "{ a }",
                    "query { a }", "type Query { a: [Int }", "type Query { a(: Int): Int }", "type Query @ { a: Int }", "type Query { a: Int = 1 }"):
            out["counts"]["mutated"] += 1
            try:
                built, detail = try_build(sdl, S.Schema((), (), None, None, None)) if sdl.strip() else (False, "empty")
                if sdl.strip() == "":
                    try:
                        harness.run(create_engine(sdl, schema_name=harness.fresh_name("c12e")))
                        built = True
                    except BaseException:  # noqa
                        built = False
            except Exception as e:  # noqa
                built = False
            out["counts"]["evaluations"] += 1
            if built:
                out["violations"].append({"signature": "engine-built|syntax|malformed", "summary": "engine built from %r" % sdl, "replay": {"sdl": sdl, "rule": "syntax", "site": "malformed"}})
        out["samples"].append({"syntax_base": SMALL_SDL})
    else:
        # sanity: the valid bases build (guards against a check that 'passes' because nothing ever builds)
        for label, seed in seed_models():
            ok, detail = try_build(S.print_sdl(seed), registration_model(seed))
            out["counts"]["evaluations"] += 1
            if not ok:
                out["machinery"].append("valid seed %s does not build: %s" % (label, detail))
    return out


def finish(agg, tier):
    c = agg.counts
    rs = agg.tables.get("rule_site", {})
    return {
        "states": c.get("mutated", 0),
        "transitions": c.get("evaluations", 0),
        "traces_validated_against_impl": c.get("evaluations", 0),
        "evaluations": c.get("evaluations", 0),
        "distinct_nontrivial": len(rs),
        "rule": "states = invalid SDLs: for %d base models (3 seeds and every valid model within %d rewrite(s) of kinds add-type / "
                "implementer / union member / roots / directive) the SX catalogue injects each checked rule at every site (undefined type, "
                "non-input / non-output type, interface contract x 7, implements non-interface / undefined, roots x 6, empty object, "
                "union / enum / type / directive duplicates and self-membership, 17 kinds of invalid extend), certified invalid by E5's "
                "schema validator; plus a scalar without implementation, each of 10 non-awaitable directive hooks, every single-token "
                "deletion of a small SDL and 13 malformed texts. non-trivial = distinct (rule, site) pairs exercised"
                % (c.get("bases", 0), DEPTH[tier]),
        "exhaustive": True,
    }


def replay(rec):
    r = rec["replay"]
    sdl = r["sdl"]
    try:
        m = registration_model(S.parse_sdl(sdl))
    except Exception:
        m = S.Schema((), (), None, None, None)
    built, detail = try_build(sdl, m)
    return [{"summary": "engine built from invalid SDL (%s at %s)" % (r["rule"], r["site"])}] if built else []
