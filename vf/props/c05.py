"""C05 — field and directive arguments reach resolvers spec-coerced; literal = variable (DESIGN 4/C05).

Exhaustive over: argument type (10 base types x wrapper shapes) x way of supplying {literal, variable, variable inside
list literal, variable inside object literal, schema default, variable default, omitted, null literal, null through
variable, nullable-variable-with-default into T!} x every value of the per-type universe x {field argument, custom
directive argument, @skip/@include}.  Oracles: absolute (E5's dictionary) and relational (all spellings agree).
"""
from vf import doc, explore, harness, inputs, schema as S
from vf.data import Scenario
from vf.doc import NullV, Var, ListV, ObjV
from vf.model import coerce as C, execute as X, validate as V

PROPERTY = "C05"
LEVEL = "model_checking"
ASSUMPTIONS = ["DC3: a variable without runtime value inside a list literal is null or makes the value invalid",
               "ill-typed literals are refused either by validation (whole request) or as a field error: in both cases the resolver must not run"]
BUDGET_S = {"quick": 600, "thorough": 1800}
LEVELS = {"quick": 3, "thorough": 3}

ALT_GOOD = {"Int": 0, "Float": 1, "String": "", "Boolean": False, "ID": 7, "Tag": "", "Color": "BLUE",
            "P": {"c": 1, "b": None}, "Q": {"r": 1, "p": {"c": [2]}}, "R": {"r": {"r": {}}}}


def alt_good(t):
    if t[0] == "nn":
        return alt_good(t[1])
    if t[0] == "list":
        return [alt_good(t[1]), alt_good(t[1])]
    return ALT_GOOD[t[1]]


class DaDirective:
    async def on_field_execution(self, directive_args, next_resolver, parent, args, ctx, info):
        scn = harness.scenario_of(ctx)
        scn.events.append(("da", C.freeze(directive_args)))
        return await next_resolver(parent, args, ctx, info)


def build_schema(level):
    tmp = S.parse_sdl(inputs.INPUT_TYPES_SDL + "type Query { k: Int }")
    lines = []
    for b in inputs.BASES:
        for i, sh in enumerate(inputs.shapes(level)):
            tstr = sh.replace("T", b)
            t = doc.parse_type_str(tstr)
            lines.append("  g_%s_%d(x: %s): String" % (b, i, tstr))
            lines.append("  d_%s_%d(x: %s = %s): String" % (b, i, tstr, S.value_str(inputs.to_literal(tmp, t, inputs._good(t)))))
            lines.append("  e_%s_%d(x: %s = %s): String" % (b, i, tstr, S.value_str(inputs.to_literal(tmp, t, alt_good(t)))))
    lines.append("  k: Int")
    lines.append("  shs: [Sh]")
    sdl = (inputs.INPUT_TYPES_SDL
           + "interface Sh { t(max: Int = 1, tail: String): String }\n"
           + "type T1 implements Sh { t(max: Int = 140, tail: String): String }\n"
           + "type T2 implements Sh { t(max: Int = 60, tail: String = \"...\"): String }\n"
           + "directive @da(i: Int, l: [Int!], p: P, e: Color = GREEN, r: Int! = 5, t: Tag, id: ID = 4) on FIELD\n"
           + "type Query {\n" + "\n".join(lines) + "\n}\n")
    return S.parse_sdl(sdl)


_SCHEMAS = {}


def schema_for(level):
    if level not in _SCHEMAS:
        _SCHEMAS[level] = build_schema(level)
    return _SCHEMAS[level]


def engine_for(level):
    # Query.shs completes its items one after the other: the same field node `t` is executed for T1, later for T2
    return explore.engine_for(("C05", level), schema_for(level), directive_impl={"da": DaDirective()},
                              typecfg={"resolver_kwargs": {"Query.shs": {"list_concurrently": False}}})


def shards(tier, seed):
    level = LEVELS[tier]
    items = [("type", b, i, level) for b in inputs.BASES for i in range(len(inputs.shapes(level)))]
    items.append(("directive", level))
    items += [("nnpairs", b, level) for b in inputs.BASES]
    return items


def expected(schema, located, raw):
    """model: -> list over policies of ('refused',) | ('fielderror',) | ('args', frozen)"""
    outs = []
    op = located.operations[0]
    for pol in C.Policy.all():
        vals, bad = C.coerce_variables(schema, op, raw, pol)
        if bad:
            o = ("refused",)
        else:
            node = op.sel[0]
            fd = schema.field_def("Query", node.name)
            try:
                o = ("args", C.freeze(C.coerce_arguments(schema, fd.args, node.args, vals, pol)))
            except C.ArgError:
                o = ("fielderror",)
        if o not in outs:
            outs.append(o)
    return outs


def observe(engine, text, raw):
    scn = Scenario(root={"k": 1})
    try:
        resp = harness.execute(engine, text, scn, variables=raw)
    except Exception as e:  # noqa
        return ("raised", repr(e)), None, scn
    mine = [l for l in scn.log if l[0] != ("k",)]
    if mine:
        return ("args", mine[0][2]), resp, scn
    if isinstance(resp, dict) and resp.get("data") is None:
        return ("refused",), resp, scn
    return ("fielderror",), resp, scn


def _null_at_depth(v, depth):
    if depth == 0:
        return v is None
    return isinstance(v, list) and any(_null_at_depth(x, depth - 1) for x in v)


def run_shard(item):
    level = item[-1]
    schema = schema_for(level)
    engine = engine_for(level)
    out = {"counts": {"evaluations": 0, "values": 0, "spellings": 0, "relational_groups": 0}, "tables": {"ways": {}, "outcomes": {}},
           "sets": {}, "samples": [], "violations": [], "machinery": []}

    def viol(clause, way, tstr, text, raw, obs, exp):
        shape = tstr
        for b in inputs.BASES:
            shape = shape.replace(b, "Leaf" if b not in ("P", "Q", "R") else "Input")
        shape = ("nested-list-of-" if "[[" in shape else "list-of-" if "[" in shape else "") + ("Input" if "Input" in shape else "Leaf")
        out["violations"].append({
            "signature": "%s|%s|%s" % (clause, way, shape),
            "summary": "%s [%s] %s variables=%r: observed %r expected one of %r" % (clause, way, text, raw, obs, exp),
            "replay": {"text": text, "variables_repr": repr(raw), "level": level, "way": way}})

    def case(way, tstr, text, raw, group=None, must_be_valid=True, ill_typed=False, relational_only=False):
        """run one spelling; absolute oracle; returns the observation for the relational oracle"""
        located = doc.parse(text)
        rules = V.validate(schema, located)
        if must_be_valid and rules:
            out["machinery"].append("spelling '%s' is not valid (%s): %s" % (way, sorted(rules), text))
            return None
        out["counts"]["evaluations"] += 1
        out["counts"]["spellings"] += 1
        out["tables"]["ways"][way] = out["tables"]["ways"].get(way, 0) + 1
        obs, resp, scn = observe(engine, text, raw)
        out["tables"]["outcomes"][obs[0]] = out["tables"]["outcomes"].get(obs[0], 0) + 1
        if relational_only:
            if obs[0] == "raised":
                viol("execute-raised", way, tstr, text, raw, obs, "a response")
            return ("refused",) if obs[0] == "fielderror" else obs  # refused by validation or as a field error: the resolver did not run
        if ill_typed:
            if obs[0] == "args" or obs[0] == "raised":
                viol("ill-typed-value-delivered", way, tstr, text, raw, obs, "no resolver call")
            return obs
        exp = expected(schema, located, raw)
        ok = obs in exp
        if not ok and obs[0] == "refused" and ("fielderror",) in exp and rules:
            ok = True
        if not ok:
            viol("argument-dictionary-differs" if obs[0] == "args" else "outcome-differs", way, tstr, text, raw, obs, exp)
        return obs

    if item[0] == "nnpairs":
        # Non-null transparency: NonNull(T) coerces a non-null value exactly as T does.  For every pair of declared shapes (A, B) where
        # B is A with one more "!" after a list level or at the end, every spelling whose value is non-null at that level must be
        # observed identically through x: A and x: B -- including list literals holding a variable without runtime value (DC3 leaves
        # null-or-invalid open, but not dependent on the nullability of the *enclosing* list).
        base = item[1]
        shs = inputs.shapes(level)
        pairs = []
        for bi, b in enumerate(shs):
            for k, ch in enumerate(b):
                if ch == "!" and k > 0 and b[k - 1] == "]":
                    a = b[:k] + b[k + 1:]
                    if a in shs:
                        pairs.append((shs.index(a), bi, b[:k].count("[") - b[:k].count("]")))
        for ai, bi, depth in pairs:
            ta, tb = (doc.parse_type_str(shs[i].replace("T", base)) for i in (ai, bi))
            ga, gb = "g_%s_%d" % (base, ai), "g_%s_%d" % (base, bi)
            leaf = doc.named_of(ta)
            spell = []
            for v in inputs.json_values(ta):
                if v is None or not isinstance(v, list) or _null_at_depth(v, depth):
                    continue
                lit = inputs.to_literal(schema, ta, v)
                if lit is not None and not _has_float_for_intlike(schema, ta, v):
                    spell.append(("literal", "{ %%s(x: %s) }" % S.value_str(lit).replace("%", "%%"), None))
            # a variable without runtime value as (one of) the innermost items, wrapped in as many list literals as the type has levels
            levels = shs[ai].count("[")
            innermost_nullable = not shs[ai].replace("]", "").replace("[", "").endswith("!")
            if innermost_nullable:
                glit = S.value_str(inputs.to_literal(schema, ("named", leaf), inputs.GOOD[leaf])).replace("%", "%%")
                for items_txt, tag in (("$e", "missing-variable-alone"), (glit + ", $e", "missing-variable-last"), ("$e, " + glit, "missing-variable-first")):
                    txt = "[" * levels + items_txt + "]" * levels
                    for raw, rtag in (({}, ""), ({"e": None}, "|null"), ({"e": inputs.GOOD[leaf]}, "|value")):
                        spell.append((tag + rtag, "query($e: %s) { %%s(x: %s) }" % (leaf, txt), raw))
            for way, tmpl, raw in spell:
                oa = case("nn-transparency|" + way.split("|")[0], shs[ai].replace("T", base), tmpl % ga, raw, must_be_valid=False, relational_only=True)
                ob = case("nn-transparency|" + way.split("|")[0], shs[bi].replace("T", base), tmpl % gb, raw, must_be_valid=False, relational_only=True)
                out["counts"]["relational_groups"] += 1
                if oa is not None and ob is not None and oa != ob:
                    viol("non-null-wrapper-changes-coercion", way, shs[bi].replace("T", base), tmpl % gb, raw, ob, [oa])
        return out
    if item[0] == "type":
        _, base, si, _ = item
        shape = inputs.shapes(level)[si]
        tstr = shape.replace("T", base)
        t = doc.parse_type_str(tstr)
        core = t[1] if t[0] == "nn" else t
        g, d, e = "g_%s_%d" % (base, si), "d_%s_%d" % (base, si), "e_%s_%d" % (base, si)
        values = inputs.json_values(t)
        for v in values:
            out["counts"]["values"] += 1
            model_in = {repr(C.coerce_input(schema, t, v, pol)) if v is not None or t[0] != "nn" else "INVALID"
                        for pol in C.Policy.all()}
            valid_value = "INVALID" not in model_in
            lit = inputs.to_literal(schema, t, v)
            obs_group = []
            # 2. variable
            o = case("variable", tstr, "query($v: %s) { %s(x: $v) }" % (tstr, g), {"v": v})
            if valid_value:
                obs_group.append(("variable", o))
            # 1. literal  (a JSON float has a Float literal: ill-typed for Int / ID -> DC1, skipped)
            dc1 = _has_float_for_intlike(schema, t, v)
            if lit is not None and not dc1:
                o = case("literal", tstr, "{ %s(x: %s) }" % (g, S.value_str(lit)), None, must_be_valid=False,
                         ill_typed=not valid_value and len(model_in) == 1)
                if valid_value:
                    obs_group.append(("literal", o))
                # 6. variable default
                if valid_value:
                    o = case("variable-default", tstr, "query($v: %s = %s) { %s(x: $v) }" % (tstr, S.value_str(lit), g), {})
                    obs_group.append(("variable-default", o))
            # 3. variable inside a list literal
            if valid_value and core[0] == "list" and isinstance(v, list) and len(v) in (1, 2) and not dc1:
                inner = core[1]
                names = ["e%d" % i for i in range(len(v))]
                if all(x is not None or inner[0] != "nn" for x in v):
                    o = case("variable-in-list", tstr,
                             "query(%s) { %s(x: [%s]) }" % (", ".join("$%s: %s" % (n, doc.type_to_str(inner)) for n in names), g,
                                                           ", ".join("$" + n for n in names)),
                             dict(zip(names, v)))
                    obs_group.append(("variable-in-list", o))
            # 4. variable inside an object literal
            if valid_value and core[0] == "named" and base in ("P", "Q", "R") and isinstance(v, dict) and v:
                td = schema.type(base)
                k0 = next(iter(v))
                fdef = td.field(k0)
                rest = [(k, inputs.to_literal(schema, td.field(k).type, x)) for k, x in v.items() if k != k0]
                if fdef is not None and all(r is not None for _, r in rest) and (v[k0] is not None or fdef.type[0] != "nn"):
                    obj = ObjV(tuple([(k0, Var("e"))] + rest))
                    o = case("variable-in-object", tstr, "query($e: %s) { %s(x: %s) }" % (doc.type_to_str(fdef.type), g, S.value_str(obj)),
                             {"e": v[k0]})
                    obs_group.append(("variable-in-object", o))
            # 3d/4d. the nested variable has no runtime value while *another* variable of the request has one (and while none has):
            # the field is then absent / defaulted (object) or null-or-invalid (list, DC3) -- the same in both requests
            if valid_value and core[0] == "named" and base in ("P", "Q", "R") and isinstance(v, dict) and v:
                td = schema.type(base)
                k0 = next(iter(v))
                fdef = td.field(k0)
                rest = [(k, inputs.to_literal(schema, td.field(k).type, x)) for k, x in v.items() if k != k0]
                if fdef is not None and all(r is not None for _, r in rest) and fdef.type[0] != "nn":
                    obj = ObjV(tuple([(k0, Var("e"))] + rest))
                    text = "query($e: %s, $w: Int) { %s(x: %s) k @da(i: $w) }" % (doc.type_to_str(fdef.type), g, S.value_str(obj))
                    oa = case("absent-variable-in-object|no-other-variable", tstr, text, {})
                    ob = case("absent-variable-in-object|beside-a-provided-variable", tstr, text, {"w": 5})
                    if oa is not None and ob is not None and oa != ob:
                        viol("spellings-disagree", "absent-nested-variable-depends-on-other-variables", tstr, text, {"w": 5}, ob, oa)
            if valid_value and core[0] == "list" and core[1][0] != "nn" and isinstance(v, list) and len(v) == 2 and not dc1 and v[0] is not None:
                inner = core[1]
                lit0 = inputs.to_literal(schema, inner, v[0])
                if lit0 is not None:
                    text = "query($e: %s, $w: Int) { %s(x: [%s, $e]) k @da(i: $w) }" % (doc.type_to_str(inner), g, S.value_str(lit0))
                    oa = case("absent-variable-in-list|no-other-variable", tstr, text, {})
                    ob = case("absent-variable-in-list|beside-a-provided-variable", tstr, text, {"w": 5})
                    if oa is not None and ob is not None and oa != ob:
                        viol("spellings-disagree", "absent-nested-variable-depends-on-other-variables", tstr, text, {"w": 5}, ob, oa)
            # 4c. a single (un-bracketed) object literal holding a variable, given where a list of input objects is declared
            if (valid_value and core[0] == "list" and core[1] in (("named", base), ("nn", ("named", base))) and base in ("P", "Q", "R")
                    and isinstance(v, dict) and v):
                td = schema.type(base)
                k0 = next(iter(v))
                fdef = td.field(k0)
                rest = [(k, inputs.to_literal(schema, td.field(k).type, x)) for k, x in v.items() if k != k0]
                if fdef is not None and all(r is not None for _, r in rest) and (v[k0] is not None or fdef.type[0] != "nn"):
                    obj = ObjV(tuple([(k0, Var("e"))] + rest))
                    o = case("variable-in-single-object-for-list", tstr,
                             "query($e: %s) { %s(x: %s) }" % (doc.type_to_str(fdef.type), g, S.value_str(obj)), {"e": v[k0]})
                    obs_group.append(("variable-in-single-object-for-list", o))
            if len(obs_group) > 1:
                out["counts"]["relational_groups"] += 1
                first = obs_group[0][1]
                for way, o in obs_group[1:]:
                    if o is not None and first is not None and o != first:
                        viol("spellings-disagree", obs_group[0][0] + "-vs-" + way, tstr, "value %r for %s" % (v, tstr), None, o, first)
        # 3b/4b. a nullable variable *with a default* nested at a non-null position, null at run time: field error only
        if core[0] == "list" and core[1][0] == "nn":
            u = core[1][1]
            ulit = inputs.to_literal(schema, u, inputs._good(u))
            text = "query($e: %s = %s) { %s(x: [$e]) k }" % (doc.type_to_str(u), S.value_str(ulit), g)
            case("nested-nullable-variable-default", tstr, text, {})
            case("nested-nullable-variable-null-into-non-null", tstr, text, {"e": None})
        if base == "Q" and core[0] == "named":
            text = "query($e: Int = 1) { %s(x: {r: $e}) k }" % g
            case("nested-nullable-variable-default", tstr, text, {})
            case("nested-nullable-variable-null-into-non-null", tstr, text, {"e": None})
        # 5. schema defaults / 7. omitted / 8. null literal / 9. null through variable
        good = inputs._good(t)
        olit = case("literal-of-default", tstr, "{ %s(x: %s) }" % (g, S.value_str(inputs.to_literal(schema, t, good))), None)
        odef = case("schema-default", tstr, "{ %s }" % d, None)
        if olit is not None and odef is not None and olit != odef:
            viol("spellings-disagree", "literal-vs-schema-default", tstr, "default %r" % (good,), None, odef, olit)
        olit = case("literal-of-default", tstr, "{ %s(x: %s) }" % (g, S.value_str(inputs.to_literal(schema, t, alt_good(t)))), None)
        odef = case("schema-default", tstr, "{ %s }" % e, None)
        if olit is not None and odef is not None and olit != odef:
            viol("spellings-disagree", "literal-vs-schema-default", tstr, "default %r" % (alt_good(t),), None, odef, olit)
        case("schema-default-variable-absent", tstr, "query($v: %s) { %s(x: $v) }" % (doc.type_to_str(core), d), {})
        case("schema-default-overridden-by-null-variable", tstr, "query($v: %s) { %s(x: $v) }" % (doc.type_to_str(core), d), {"v": None})
        if t[0] != "nn":
            case("omitted", tstr, "{ %s }" % g, None)
            case("null-literal", tstr, "{ %s(x: null) }" % g, None)
            case("null-literal-over-default", tstr, "{ %s(x: null) }" % d, None)
            case("null-variable", tstr, "query($v: %s) { %s(x: $v) }" % (tstr, g), {"v": None})
            case("absent-variable", tstr, "query($v: %s) { %s(x: $v) }" % (tstr, g), {})
        else:
            # nullable variable with a default into T!: valid document, null at run time fails that field only
            lit = S.value_str(inputs.to_literal(schema, t, good))
            text = "query($v: %s = %s) { %s(x: $v) k }" % (doc.type_to_str(core), lit, g)
            case("nullable-variable-into-non-null", tstr, text, {})
            located = doc.parse(text)
            out["counts"]["evaluations"] += 1
            obs, resp, scn = observe(engine, text, {"v": None})
            if obs[0] == "args" or not isinstance(resp, dict) or resp.get("data") != {g: None, "k": 1} or not resp.get("errors"):
                viol("null-for-non-null-argument-not-a-field-error", "nullable-variable-into-non-null", tstr, text, {"v": None},
                     (obs, resp), "data {%s: null, k: 1} + error, resolver not called" % g)
        if si in (2, 7):
            out["samples"].append({"argument_type": tstr, "ways": sorted(out["tables"]["ways"]), "values": [repr(v) for v in values[:6]]})
    else:
        # directive positions: custom directive argument, @skip / @include
        spellings = [
            ("literal", "{ k @da(i: 1, l: [2, 3], p: {a: 1}, t: \"x\") }", None),
            ("literal-single-for-list", "{ k @da(l: 2) }", None),
            ("variable", "query($i: Int, $l: [Int!], $p: P, $t: Tag) { k @da(i: $i, l: $l, p: $p, t: $t) }",
             {"i": 1, "l": [2, 3], "p": {"a": 1}, "t": "x"}),
            ("variable-single-for-list", "query($l: [Int!]) { k @da(l: $l) }", {"l": 2}),
            ("variable-in-list", "query($e: Int!) { k @da(l: [$e, 3]) }", {"e": 2}),
            ("variable-in-object", "query($e: Int) { k @da(p: {a: $e}) }", {"e": 1}),
            ("variable-in-object-absent", "query($e: Int) { k @da(p: {a: $e}) }", {}),
            ("omitted", "{ k @da }", None),
            ("null-literal", "{ k @da(i: null, e: null) }", None),
            ("null-variable", "query($i: Int, $e: Color) { k @da(i: $i, e: $e) }", {"i": None, "e": None}),
            ("absent-variable", "query($i: Int, $e: Color) { k @da(i: $i, e: $e) }", {}),
            ("variable-default", "query($i: Int = 4, $r: Int = 6) { k @da(i: $i, r: $r) }", {}),
            ("enum-literal", "{ k @da(e: RED) }", None),
            ("enum-variable", "query($e: Color) { k @da(e: $e) }", {"e": "RED"}),
            ("id-int-literal", "{ k @da(id: 5) }", None),
            ("id-int-variable", "query($d: ID) { k @da(id: $d) }", {"d": 5}),
            # several directives at one location: each hook gets its own arguments
            ("two-directives-da-first", "query($s: Boolean = false) { k @da(i: 1, l: [2]) @skip(if: $s) @include(if: true) }", None),
            ("two-directives-da-last", "query($i: Int = 3) { k @include(if: true) @skip(if: false) @da(i: $i, t: \"y\") }", None),
            ("two-directives-da-middle", "{ k @include(if: true) @da(e: BLUE) @skip(if: false) }", None),
        ]
        dd = schema.directive("da")
        for way, text, raw in spellings:
            located = doc.parse(text)
            if V.validate(schema, located):
                out["machinery"].append("directive spelling invalid: " + text)
                continue
            out["counts"]["evaluations"] += 1
            out["counts"]["spellings"] += 1
            scn = Scenario(root={"k": 1})
            resp = harness.execute(engine, text, scn, variables=raw)
            got = [e[1] for e in scn.events if e[0] == "da"]
            vals, bad = C.coerce_variables(schema, located.operations[0], raw)
            exps = []
            for pol in C.Policy.all():
                try:
                    da_node = [d for d in located.operations[0].sel[0].dirs if d.name == "da"][0]
                    exps.append(C.freeze(C.coerce_arguments(schema, dd.args, da_node.args, vals, pol)))
                except C.ArgError:
                    exps.append(None)
            if len(got) != 1 or got[0] not in exps or resp.get("data") != {"k": 1}:
                viol("directive-argument-dictionary-differs", way, "@da", text, raw, (got, resp), exps[:1])
        # one field node, two implementing types with different schema defaults, executed at different times
        for way, text, raw in (("omitted", "{ shs { t } }", None), ("literal", "{ shs { t(max: 7) } }", None),
                               ("absent-variable", "query($m: Int, $s: String) { shs { t(max: $m, tail: $s) } }", {}),
                               ("null-variable", "query($m: Int) { shs { t(max: $m) } }", {"m": None}),
                               ("variable", "query($m: Int) { shs { t(max: $m) } }", {"m": 9})):
            located = doc.parse(text)
            if V.validate(schema, located):
                out["machinery"].append("per-type default spelling invalid: " + text)
                continue
            out["counts"]["evaluations"] += 1
            out["counts"]["spellings"] += 1
            scn = Scenario(root={"k": 1, "shs": [{"_typename": "T1"}, {"_typename": "T2"}, {"_typename": "T1"}]})
            resp = harness.execute(engine, text, scn, variables=raw)
            got = sorted((l[0], l[2]) for l in scn.log if l[0][-1] == "t")
            vals, bad = C.coerce_variables(schema, located.operations[0], raw)
            node = located.operations[0].sel[0].sel[0]
            want = sorted(((("shs", i, "t")), C.freeze(C.coerce_arguments(schema, schema.field_def(tn, "t").args, node.args, vals)))
                          for i, tn in enumerate(("T1", "T2", "T1")))
            if got != want:
                viol("argument-dictionary-differs", "per-type-default-" + way, "Sh.t", text, raw, got, want)
        # @skip / @include: literal, variable, variable default, and the two directives together
        for dn, val, expect_present in (("skip", True, False), ("skip", False, True), ("include", True, True), ("include", False, False)):
            lit = "true" if val else "false"
            for way, text, raw in (
                ("literal", "{ k @%s(if: %s) }" % (dn, lit), None),
                ("variable", "query($b: Boolean!) { k @%s(if: $b) }" % dn, {"b": val}),
                ("variable-default", "query($b: Boolean = %s) { k @%s(if: $b) }" % (lit, dn), {}),
                ("variable-over-default", "query($b: Boolean = %s) { k @%s(if: $b) }" % ("false" if val else "true", dn), {"b": val}),
            ):
                out["counts"]["evaluations"] += 1
                out["counts"]["spellings"] += 1
                scn = Scenario(root={"k": 1})
                resp = harness.execute(engine, text + " ", scn, variables=raw)
                want = {"k": 1} if expect_present else {}
                if resp.get("data") != want or resp.get("errors"):
                    viol("skip-include-argument", way, "@" + dn, text, raw, resp, want)
        out["samples"].append({"directive_spellings": [s[1] for s in spellings[:4]]})
    return out


def _has_float_for_intlike(schema, t, v):
    """DC1: v contains a JSON float at a position whose declared leaf is Int or ID"""
    if v is None:
        return False
    if t[0] == "nn":
        return _has_float_for_intlike(schema, t[1], v)
    if t[0] == "list":
        if isinstance(v, list):
            return any(_has_float_for_intlike(schema, t[1], x) for x in v)
        return _has_float_for_intlike(schema, t[1], v)
    td = schema.type(t[1])
    if td.kind == "INPUT_OBJECT" and isinstance(v, dict):
        return any(_has_float_for_intlike(schema, td.field(k).type, x) for k, x in v.items() if td.field(k) is not None)
    return td.name in ("Int", "ID") and isinstance(v, float)


def finish(agg, tier):
    c = agg.counts
    return {
        "states": c.get("spellings", 0),
        "transitions": c.get("evaluations", 0),
        "traces_validated_against_impl": c.get("evaluations", 0),
        "evaluations": c.get("evaluations", 0),
        "distinct_nontrivial": c.get("relational_groups", 0),
        "rule": "a state = one spelling (way of supplying) of one value for one argument type: 10 base types x %d wrapper shapes x "
                "per-type value universes x ways %s, plus 16 directive-argument spellings and 16 @skip/@include spellings. "
                "non-trivial = values spelled in >= 2 ways whose resolver-observed dictionaries were compared with each other"
                % (len(inputs.shapes(LEVELS[tier])), sorted(agg.tables.get("ways", {}))),
        "exhaustive": True,
    }


def replay(rec):
    r = rec["replay"]
    level = r["level"]
    schema = schema_for(level)
    engine = harness.build_engine(schema, directive_impl={"da": DaDirective()})
    raw = eval(r["variables_repr"], {"inf": float("inf"), "nan": float("nan")})  # noqa: S307
    if not r["text"].startswith(("{", "query")):
        return [{"summary": "relational violation: re-run the shard (" + r["text"] + ")"}]
    located = doc.parse(r["text"])
    obs, resp, scn = observe(engine, r["text"], raw)
    exp = expected(schema, located, raw)
    if obs not in exp:
        return [{"summary": "observed %r expected one of %r" % (obs, exp)}]
    return []
