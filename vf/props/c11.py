"""C11 — introspection describes exactly the schema that was supplied (DESIGN 4/C11).

Explicit-state BFS over schema models (catalogue S at every site, depth d) x four ways of supplying the SDL x
with / without `extend` spelling; E5 computes the expected introspection from the model.
"""
import os
import shutil
import tempfile

from vf import doc, explore, harness, schema as S, schema_rewrite as SR, seeds
from vf.data import Scenario
from vf.model import introspect as I, schema_validate as SV


PROPERTY = "C11"
LEVEL = "model_checking"
ASSUMPTIONS = ["DC11: __* meta types and the order of types / directives / possibleTypes are not compared",
               "DC15: descriptions are not compared", "default values are compared after parsing them back as GraphQL values"]
BUDGET_S = {"quick": 600, "thorough": 3000}
DEPTH = {"quick": 1, "thorough": 2}

MINI_SDL = "type Query { a: Int }"
RENAMED_SDL = """
type RootQ { a: Int thing: Thing }
type RootM { go(x: Int = 1): Int }
type RootS { ev: Int }
type Thing { id: ID! }
schema { query: RootQ mutation: RootM subscription: RootS }
"""
# legal but unusual names: a single leading underscore (only `__` is reserved), trailing underscores, digits, one letter
NAMES_SDL = """
scalar _Any
enum _Scope { _A b_ C1 }
interface _Node { _id: ID }
type _Entity implements _Node { _id: ID _a(_x: Int = 1): _Any }
union _U = _Entity | T1
input _Filter { _f: Int = 2 g: _Scope = _A }
type T1 { x_: Int }
type Q { _e(f: _Filter): _Entity u: _U s: _Scope t1: T1 n: _Node }
schema { query: Q }
"""
# descriptions everywhere (DC15: their text is not compared, but an SDL carrying them -- empty ones included -- must build)
DESC_SDL = r'''
"a scalar" scalar Stamp
"" enum Mood { "" HAPPY "sad \"quoted\"" SAD }
"""
block
  description
""" interface Being { "" id: ID "é☃" mood(detail: Boolean = false): Mood }
"" type Person implements Being { id: ID mood("" detail: Boolean = false): Mood "" at: Stamp }
"""""" union Anyone = Person
"input" input Filter { "" mood: Mood = HAPPY "n" n: Int }
"" directive @note("" text: String = "") on FIELD_DEFINITION
type Query { "" people("" f: Filter): [Person] anyone: Anyone @note }
'''
DEPR_SDL = r"""
enum E { A B @deprecated C @deprecated(reason: "no C") D @deprecated(reason: "obsolète\n\"utiliser\" A ☃ \\o/") F @deprecated(reason: "") G @deprecated(reason: null) }
interface I { x: Int old: Int @deprecated }
type T implements I { x: Int old: Int @deprecated(reason: "gone") e: E hidden: Int @nonIntrospectable blank: Int @deprecated(reason: "") none: Int @deprecated(reason: null) }
union U = T
input In { a: Int = 3 b: [String!] = ["x", "déjà \"vu\"", "naïve\nligne\t日本"] c: E = B d: In s: String = "café \\ \"q\" €" }
type Query { t(i: In = {a: 1}, n: Int = null): T u: U i: I secret: String @nonIntrospectable }
"""


EXT_HEAD = """
directive @mark on OBJECT | INTERFACE | UNION | ENUM | INPUT_OBJECT | SCALAR | SCHEMA
interface Node { id: ID }
type Item implements Node { id: ID }
type Other { n: Int }
union Thing = Item
enum Color { RED }
input Filter { color: Color }
scalar Money
type Query { node: Node money: Money thing(f: Filter): Thing }
"""
EXT_MEMBERS = """
extend type Query { items: [Item] }
extend enum Color { GREEN }
extend input Filter { limit: Int = 1 }
extend union Thing = Other
extend type Other implements Node { id: ID }
extend interface Node { name: String }
extend type Item { name: String }
extend type Other { name: String }
"""
EXTENSION_LAYOUTS = [
    ("members-only", EXT_HEAD + EXT_MEMBERS),
    ("directive-only-interface-first", EXT_HEAD + "extend interface Node @mark\n" + EXT_MEMBERS),
    ("directive-only-object-first", EXT_HEAD + "extend type Item @mark\n" + EXT_MEMBERS),
    ("directive-only-union-first", EXT_HEAD + "extend union Thing @mark\n" + EXT_MEMBERS),
    ("directive-only-enum-first", EXT_HEAD + "extend enum Color @mark\n" + EXT_MEMBERS),
    ("directive-only-input-first", EXT_HEAD + "extend input Filter @mark\n" + EXT_MEMBERS),
    ("directive-only-scalar-first", EXT_HEAD + "extend scalar Money @mark\n" + EXT_MEMBERS),
    ("directive-only-schema-first", EXT_HEAD + "schema { query: Query }\nextend schema @mark\n" + EXT_MEMBERS),
    ("schema-extension-adds-root", EXT_HEAD + "type Mut { go: Int }\nschema { query: Query }\nextend schema { mutation: Mut }\n" + EXT_MEMBERS),
    ("extensions-before-definitions", EXT_MEMBERS + EXT_HEAD),
    ("empty-union-base", EXT_HEAD.replace("union Thing = Item", "union Thing") + "extend union Thing = Item\n" + EXT_MEMBERS),
    ("empty-enum-base", EXT_HEAD.replace("enum Color { RED }", "enum Color") + "extend enum Color { RED }\n" + EXT_MEMBERS),
    ("empty-input-base", EXT_HEAD.replace("input Filter { color: Color }", "input Filter") + "extend input Filter { color: Color }\n" + EXT_MEMBERS),
    ("empty-object-base", EXT_HEAD.replace("type Other { n: Int }", "type Other") + "extend type Other { n: Int }\n" + EXT_MEMBERS),
    ("empty-interface-base", EXT_HEAD.replace("interface Node { id: ID }", "interface Node") + "extend interface Node { id: ID }\n" + EXT_MEMBERS),
]


def seed_models():
    w, _ = seeds.w_schema("quick")
    return [("K", seeds.K), ("W", w), ("mini", S.parse_sdl(MINI_SDL)), ("renamed", S.parse_sdl(RENAMED_SDL)),
            ("deprecations", S.parse_sdl(DEPR_SDL)), ("names", S.parse_sdl(NAMES_SDL)),
            ("descriptions", with_descriptions(S.parse_sdl(DESC_SDL)))]


_DESCS = ["", "x", "é☃ \"q\" \\", "two\nlines", ""]


def with_descriptions(schema):
    """every type, field, argument, input field, enum value and directive gets a description (every other one the empty string)"""
    from dataclasses import replace as _r
    n = [0]

    def nxt():
        n[0] += 1
        return _DESCS[n[0] % len(_DESCS)]

    def args(aa):
        return tuple(_r(a, desc=nxt()) for a in aa)

    types = []
    for t in schema.types:
        fields = tuple(_r(f, desc=nxt(), args=args(f.args)) if hasattr(f, "args") else _r(f, desc=nxt()) for f in t.fields)
        types.append(_r(t, desc=nxt(), fields=fields, values=tuple(_r(v, desc=nxt()) for v in t.values)))
    dirs = tuple(_r(d, desc=nxt(), args=args(d.args)) for d in schema.directives)
    return _r(schema, types=tuple(types), directives=dirs)


WAYS = ["string", "file", "files", "directory"]
# one definition per file, no trailing line terminator, every other file ending in a comment: file boundaries fall after `}`, after a
# bare name (scalar / union / directive definitions) and after a comment
EXTRA_WAYS = ["files-unterminated", "directory-unterminated"]


def supply(schema, way, extend, tmp):
    parts = SR.sdl_parts(schema, extend)
    if way == "string":
        return "\n\n".join(parts) + "\n"
    if way == "file":
        p = os.path.join(tmp, "schema.sdl")
        with open(p, "w") as f:
            f.write("\n\n".join(parts) + "\n")
        return p
    if way in EXTRA_WAYS:
        d = os.path.join(tmp, "unterminated")
        os.makedirs(os.path.join(d, "sub"), exist_ok=True)
        paths = []
        for k, part in enumerate(parts):
            p = os.path.join(d if k % 3 else os.path.join(d, "sub"), "d%03d.%s" % (k, "sdl" if k % 2 else "graphql"))
            with open(p, "w") as f:
                f.write(part + (" # end of file %d" % k if k % 2 == 0 else ""))
            paths.append(p)
        return paths if way == "files-unterminated" else d
    if way == "files":
        paths = []
        n = 3
        for k in range(n):
            chunk = parts[k::n]
            if not chunk:
                continue
            p = os.path.join(tmp, "part%d.graphql" % k)
            with open(p, "w") as f:
                f.write("\n\n".join(chunk) + "\n")
            paths.append(p)
        return paths
    d = os.path.join(tmp, "tree")
    os.makedirs(os.path.join(d, "sub", "deeper"), exist_ok=True)
    targets = [os.path.join(d, "a.sdl"), os.path.join(d, "sub", "b.graphql"), os.path.join(d, "sub", "deeper", "c.sdl")]
    for k, p in enumerate(targets):
        chunk = parts[k::3]
        with open(p, "w") as f:
            f.write("\n\n".join(chunk) + "\n")
    with open(os.path.join(d, "README.txt"), "w") as f:
        f.write("type NotSDL { x: Int }\n")
    return d


def shards(tier, seed):
    items = []
    for si in range(len(seed_models())):
        n = 6 if tier == "quick" else 32
        for k in range(n):
            items.append((si, k, n, tier))
    items.append(("nonintrospectable", tier))
    for i in range(len(EXTENSION_LAYOUTS)):
        items.append(("extension-layout", i, tier))
    return items


def models(schema, depth, k, n):
    """BFS over schema models; level-1 slice k of n"""
    seen = {S.print_sdl(schema)}
    if k == 0:
        yield schema, ()
    frontier = []
    big = len(schema.types) > 12 or any(len(t.fields) > 40 for t in schema.types)
    level1_kinds = ("S1", "S3", "S4", "S5", "S6", "S8", "S10", "S12") if any(len(t.fields) > 40 for t in schema.types) else None
    for kind, site, s2 in SR.neighbours(schema, level1_kinds):
        key = S.print_sdl(s2)
        if key in seen:
            continue
        seen.add(key)
        frontier.append((s2, ((kind, site),)))
    frontier = [x for i, x in enumerate(frontier) if i % n == k]
    for x in frontier:
        yield x
    for level in range(2, depth + 1):
        nxt = []
        for s1, trail in frontier:
            for kind, site, s2 in SR.neighbours(s1, kinds=("S3", "S4", "S9", "S10", "S6", "S5", "S12")):
                key = S.print_sdl(s2)
                if key in seen:
                    continue
                seen.add(key)
                nxt.append((s2, trail + ((kind, site),)))
                yield s2, trail + ((kind, site),)
        frontier = nxt


def check_model(schema, trail, ways, out, label):
    bad = SV.violations(schema)
    if bad:
        out["counts"]["discarded_invalid_models"] += 1
        out["tables"]["discarded"]["+".join(sorted(bad))[:60]] = out["tables"]["discarded"].get("+".join(sorted(bad))[:60], 0) + 1
        return
    S.roundtrip_sdl(schema)
    exp_all = I.expected(schema, True)
    exp_nodep = I.expected(schema, False)
    out["counts"]["models"] += 1
    for way, extend in ways:
        tmp = tempfile.mkdtemp(prefix="vf-c11-")
        name = harness.fresh_name("c11")
        try:
            sdl = supply(schema, way, extend, tmp)
            try:
                # every other engine completes sibling fields and list items one after the other (the engine-wide options): what
                # introspection describes does not depend on them
                seq = out["counts"]["engines"] % 2 == 1
                kw = {"coerce_parent_concurrently": False, "coerce_list_concurrently": False} if seq else {}
                if out["counts"]["engines"] % 4 >= 2:  # half of the engines: the custom directives are declared only, not implemented
                    kw["directive_impl"] = {d.name: False for d in schema.directives}
                engine = harness.build_engine(schema, sdl=sdl, resolvers=set(), name=name, **kw)
                out["counts"]["sequential_engines"] = out["counts"].get("sequential_engines", 0) + (1 if seq else 0)
            except Exception as e:  # noqa
                out["violations"].append(_v("engine-not-built", "build", trail, "%s [%s%s]: %r" % (label, way, "+extend" if extend else "", e), schema, way, extend))
                continue
            out["counts"]["engines"] += 1
            scn = Scenario(root={})
            problems = []
            r = harness.execute(engine, I.schema_query(True), scn)
            out["counts"]["evaluations"] += 1
            if r.get("errors") or not r.get("data"):
                problems.append(("schema", "introspection-query-failed", r.get("errors")))
            else:
                got = I.normalise(r["data"])
                problems += I.compare(exp_all, got)
                r2 = harness.execute(engine, I.schema_query(False), scn)
                out["counts"]["evaluations"] += 1
                if r2.get("errors") or not r2.get("data"):
                    problems.append(("schema", "introspection-query-failed(includeDeprecated:false)", r2.get("errors")))
                else:
                    for el, attr, det in I.compare(exp_nodep, I.normalise(r2["data"])):
                        problems.append((el, "includeDeprecated:false|" + attr, det))
                r4 = harness.execute(engine, I.decorated_schema_query(True), scn)
                out["counts"]["evaluations"] += 1
                if r4.get("errors") or not r4.get("data"):
                    problems.append(("schema", "introspection-query-failed(directives on the selections)", r4.get("errors")))
                else:
                    for el, attr, det in I.compare(exp_all, I.normalise(r4["data"])):
                        problems.append((el, "directives-on-introspection-selections|" + attr, det))
                r3 = harness.execute(engine, I.DEFAULT_FILTER_QUERY, scn)
                out["counts"]["evaluations"] += 1
                if r3.get("data"):
                    for t in r3["data"]["__schema"]["types"]:
                        e = exp_nodep["types"].get(t["name"])
                        if e is None:
                            continue
                        if e["fields"] is not None and {f["name"] for f in (t["fields"] or [])} != set(e["fields"]):
                            problems.append((e["kind"], "fields-default-includeDeprecated", (t["name"], sorted(e["fields"]), t["fields"])))
                        if e["enumValues"] is not None and {f["name"] for f in (t["enumValues"] or [])} != set(e["enumValues"]):
                            problems.append((e["kind"], "enumValues-default-includeDeprecated", (t["name"], sorted(e["enumValues"]), t["enumValues"])))
                # __type(name:) agrees with the __schema.types entry; unknown names give null
                names = list(exp_all["types"])
                if len(names) > 8:
                    names = names[:3] + names[-3:]
                unknown = ["ZzNoSuchType"] + [x for n0 in names[:2] for x in (n0.lower(), n0.upper(), n0 + "_", n0[:-1])
                                               if x and x not in exp_all["types"] and x not in I.ALLOWED_EXTRA_TYPES and not x.startswith("__")]
                for tn in names + unknown:
                    rt = harness.execute(engine, I.type_query(tn, True), scn)
                    out["counts"]["evaluations"] += 1
                    tv = (rt.get("data") or {}).get("__type")
                    if tn in unknown:
                        if tv is not None or rt.get("errors"):
                            problems.append(("type", "__type-unknown-name-not-null", rt))
                        continue
                    if tv is None:
                        problems.append(("type", "__type-null-for-declared", tn))
                    elif I.normalise_type(tv) != got["types"].get(tn):
                        problems.append((exp_all["types"][tn]["kind"], "__type-differs-from-__schema.types", tn))
            for el, attr, det in problems[:5]:
                out["violations"].append(_v("%s|%s" % (el, attr.split(".")[0] if attr.startswith(("fields.", "inputFields.")) and False else _attr_sig(attr)),
                                            "introspection", trail, "%s [%s%s]: %s %s: %r" % (label, way, "+extend" if extend else "", el, attr, det),
                                            schema, way, extend))
        finally:
            shutil.rmtree(tmp, ignore_errors=True)
            harness.forget(name)


def _attr_sig(attr):
    parts = attr.split(".")
    if parts[0] in ("fields", "inputFields") and len(parts) == 3:
        return parts[0] + "." + parts[2]
    return attr


def _v(sig, kind, trail, summary, schema, way, extend):
    return {"signature": sig, "summary": summary[:1500],
            "replay": {"sdl": S.print_sdl(schema), "way": way, "extend": extend, "trail": [list(t) for t in trail]}}


def run_shard(item):
    out = {"counts": {"models": 0, "engines": 0, "evaluations": 0, "transitions": 0, "discarded_invalid_models": 0, "nontrivial": 0},
           "tables": {"discarded": {}, "rewrites": {}}, "sets": {}, "samples": [], "violations": [], "machinery": []}
    try:
        if item[0] == "nonintrospectable":
            _nonintrospectable(out)
            return out
        if item[0] == "extension-layout":
            _extension_layout(item[1], out)
            return out
        si, k, n, tier = item
        label, schema = seed_models()[si]
        for model, trail in models(schema, DEPTH[tier], k, n):
            out["counts"]["transitions"] += 1
            for kind, site in trail:
                out["tables"]["rewrites"][kind] = out["tables"]["rewrites"].get(kind, 0) + 1
            big = len(model.types) > 12 or sum(len(t.fields) for t in model.types) > 60
            # every way x extend for small models and for the seeds; the big ones (K, W) rotate through the ways
            if not trail:
                ways = [(w, e) for w in WAYS for e in (False, True)] + [(w, e) for w in EXTRA_WAYS for e in (False, True)]
            elif not big:
                ways = [("string", False), ("file", True), ("files", False), ("directory", True)] if tier == "quick" \
                    else [(w, e) for w in WAYS for e in (False, True)]
            else:
                idx = out["counts"]["transitions"] % 4
                ways = [(WAYS[idx], idx % 2 == 0), ("string", idx % 2 == 1)]
            if trail:
                out["counts"]["nontrivial"] += 1
            check_model(model, trail, ways, out, label)
            if len(out["samples"]) < 1 and trail:
                out["samples"].append({"seed": label, "rewrites": [list(t) for t in trail], "ways": [list(w) for w in ways]})
    except doc.MachineryError as e:
        out["machinery"].append(str(e)[:600])
    return out


def _extension_layout(i, out):
    """hand-written SDL texts using every extension form; the expectation comes from the folded model"""
    label, sdl = EXTENSION_LAYOUTS[i]
    schema = S.parse_sdl(sdl)
    bad = SV.violations(schema)
    if bad:
        out["machinery"].append("extension layout %s is not a valid schema: %s" % (label, sorted(bad)))
        return
    exp_all = I.expected(schema, True)
    out["counts"]["models"] += 1
    out["counts"]["nontrivial"] += 1
    for way in WAYS:
        tmp = tempfile.mkdtemp(prefix="vf-c11-")
        name = harness.fresh_name("c11x")
        try:
            if way == "string":
                supplied = sdl
            elif way == "file":
                supplied = os.path.join(tmp, "s.sdl")
                open(supplied, "w").write(sdl)
            else:
                # keep the order of definitions: one file per chunk, numbered so that glob / list order is the text order
                defs = [d for d in sdl.strip().split("\n") if d.strip()]
                chunks = [defs[: len(defs) // 2], defs[len(defs) // 2:]]
                if way == "files":
                    supplied = []
                    for k, ch in enumerate(chunks):
                        fp = os.path.join(tmp, "p%d.graphql" % k)
                        open(fp, "w").write("\n".join(ch) + "\n")
                        supplied.append(fp)
                else:
                    supplied = os.path.join(tmp, "tree")
                    os.makedirs(os.path.join(supplied, "sub"))
                    open(os.path.join(supplied, "a.sdl"), "w").write("\n".join(chunks[0]) + "\n")
                    open(os.path.join(supplied, "sub", "b.sdl"), "w").write("\n".join(chunks[1]) + "\n")
            try:
                engine = harness.build_engine(schema, sdl=supplied, resolvers=set(), name=name)
            except Exception as e:  # noqa
                out["violations"].append(_v("engine-not-built|%s" % label, "build", (), "extension layout %s [%s]: %r\n%s" % (label, way, e, sdl), schema, way, True))
                continue
            out["counts"]["engines"] += 1
            r = harness.execute(engine, I.schema_query(True), Scenario(root={}))
            out["counts"]["evaluations"] += 1
            if r.get("errors") or not r.get("data"):
                out["violations"].append(_v("schema|introspection-query-failed|%s" % label, "introspection", (), "%s [%s]: %r" % (label, way, r.get("errors")), schema, way, True))
                continue
            for el, attr, det in I.compare(exp_all, I.normalise(r["data"]))[:4]:
                out["violations"].append(_v("%s|%s|%s" % (el, _attr_sig(attr), label), "introspection", (),
                                            "extension layout %s [%s]: %s %s: %r\n%s" % (label, way, el, attr, det, sdl), schema, way, True))
            # __typename is the name of the concrete object type, wherever the type's fields were declared (definition or extension)
            root = {"node": {"_typename": "Other", "id": "1"}, "thing": {"_typename": "Other", "n": 1}}
            rt = harness.execute(engine, "{ __typename node { __typename id } thing { __typename ... on Other { __typename name } } }",
                                 Scenario(root=root))
            out["counts"]["evaluations"] += 1
            want = {"__typename": "Query", "node": {"__typename": "Other", "id": "1"}, "thing": {"__typename": "Other", "name": None}}
            if rt.get("errors") or rt.get("data") != want:
                out["violations"].append(_v("object|__typename|%s" % label, "introspection", (),
                                            "extension layout %s [%s]: __typename query -> %r, expected %r\n%s" % (label, way, rt, want, sdl), schema, way, True))
        finally:
            shutil.rmtree(tmp, ignore_errors=True)
            harness.forget(name)
    out["samples"].append({"extension_layout": label, "sdl": sdl})


def _nonintrospectable(out):
    """a schema marked @nonIntrospectable refuses introspection"""
    for sdl in ("type Query { a: Int } schema @nonIntrospectable { query: Query }",
                "type T { x: Int } type Query { a: Int t: T } schema @nonIntrospectable { query: Query }",
                # ... with `extend` definitions: an operation-only schema extension, a directive-only one, the marker brought by the extension
                "type Query { a: Int } type Mut { go: Int } schema @nonIntrospectable { query: Query } extend schema { mutation: Mut }",
                "directive @other on SCHEMA type Query { a: Int } schema @nonIntrospectable { query: Query } extend schema @other",
                "type Query { a: Int } type Mut { go: Int } schema { query: Query } extend schema @nonIntrospectable { mutation: Mut }",
                "type Query { a: Int } type Mut { go: Int } type Sub { ev: Int } schema @nonIntrospectable { query: Query } "
                "extend schema { mutation: Mut } extend schema { subscription: Sub } extend type Query { b: Int }"):
        schema = S.parse_sdl(sdl)
        engine = harness.build_engine(schema, sdl=sdl, resolvers=set())
        scn = Scenario(root={"a": 1})
        for q in ("{ __schema { queryType { name } } }", "{ __type(name: \"Query\") { name } }"):
            r = harness.execute(engine, q, scn)
            out["counts"]["evaluations"] += 1
            leaked = r.get("data") and any(v for v in r["data"].values())
            if leaked or not r.get("errors"):
                out["violations"].append({"signature": "schema|nonIntrospectable-not-refused", "summary": "%s: %s -> %r" % (sdl, q, r),
                                          "replay": {"sdl": sdl, "way": "string", "extend": False, "trail": []}})
        r = harness.execute(engine, "{ a __typename }", scn)
        out["counts"]["evaluations"] += 1
        if r != {"data": {"a": 1, "__typename": "Query"}}:
            out["violations"].append({"signature": "schema|nonIntrospectable-breaks-normal-queries", "summary": "%r" % (r,),
                                      "replay": {"sdl": sdl, "way": "string", "extend": False, "trail": []}})
        out["counts"]["models"] += 1
    out["samples"].append({"nonIntrospectable_schema": True})


def finish(agg, tier):
    c = agg.counts
    return {
        "states": c.get("models", 0),
        "transitions": c.get("transitions", 0),
        "traces_validated_against_impl": c.get("engines", 0),
        "evaluations": c.get("evaluations", 0),
        "distinct_nontrivial": c.get("nontrivial", 0),
        "rule": "states = schema models: 5 seeds (kitchen sink K, wrapper matrix W, minimal, renamed roots via schema{}, deprecations / "
                "nonIntrospectable) and every model within %d rewrite(s) from catalogue S (add type of each kind, wrap field types, arguments "
                "and input fields with defaults of every value kind, new implementer / union member, @deprecated +- reason, "
                "@nonIntrospectable, custom directives, root changes) applied at every site; each model is cooked from its SDL supplied as "
                "string / file / list of files / directory tree, with and without the `extend` spelling, and the answers to the full "
                "introspection query (includeDeprecated true / false / default) and to __type(name:) for every type and an unknown name are "
                "compared with the expectation computed from the model. non-trivial = rewritten models" % DEPTH[tier],
        "exhaustive": True,
    }


def replay(rec):
    r = rec["replay"]
    schema = S.parse_sdl(r["sdl"])
    out = {"counts": {"models": 0, "engines": 0, "evaluations": 0, "transitions": 0, "discarded_invalid_models": 0, "nontrivial": 0},
           "tables": {"discarded": {}, "rewrites": {}}, "violations": [], "machinery": []}
    check_model(schema, tuple(tuple(t) for t in r.get("trail", [])), [(r["way"], r["extend"])], out, "replay")
    return out["violations"]
