"""E1 over schema models: catalogue S of validity-preserving schema rewrites (DESIGN 2.3), applied at every site."""
from dataclasses import replace

from vf import doc, schema as S
from vf.doc import IntV, FloatV, StrV, BoolV, NullV, EnumV, ListV, ObjV
from vf.schema import ArgDef, FieldDef, EnumVal, TypeDef, DirectiveDef, DirUse


def fresh(schema, base):
    names = {t.name for t in schema.types} | {d.name for d in schema.directives}
    n = 0
    while "%s%d" % (base, n) in names:
        n += 1
    return "%s%d" % (base, n)


def default_candidates(schema):
    """(type, default literal) pairs: one of every value kind"""
    out = [(("named", "Int"), IntV("1")), (("named", "Int"), IntV("-2147483648")), (("named", "Float"), FloatV("1.5")),
           (("named", "Float"), IntV("2")), (("named", "Float"), FloatV("1e3")),
           (("named", "String"), StrV("s")), (("named", "String"), StrV("")), (("named", "String"), StrV("q\"uo\\te")),
           (("named", "String"), StrV("line\nbreak")), (("named", "String"), StrV("é☃")),
           (("named", "Boolean"), BoolV(True)), (("named", "Boolean"), BoolV(False)), (("named", "ID"), IntV("4")),
           (("named", "ID"), StrV("x")), (("named", "Int"), NullV()),
           (("list", ("named", "Int")), ListV((IntV("1"), IntV("2")))), (("list", ("named", "Int")), ListV(())),
           (("list", ("named", "Int")), IntV("3")), (("list", ("list", ("named", "String"))), ListV((ListV((StrV("a"),)), NullV()))),
           (("nn", ("named", "Int")), IntV("7"))]
    for t in schema.types:
        if t.kind == "ENUM" and t.values:
            out.append((("named", t.name), EnumV(t.values[-1].name)))
            out.append((("list", ("nn", ("named", t.name))), ListV((EnumV(t.values[0].name),))))
        if t.kind == "INPUT_OBJECT" and t.name == "P":
            out.append((("named", "P"), ObjV((("a", IntV("1")), ("b", StrV("y")), ("c", ListV((IntV("2"),)))))))
            out.append((("named", "P"), ObjV(())))
    return out


def neighbours(schema, kinds=None):
    """yield (kind, site, schema')"""
    def want(k):
        return kinds is None or k in kinds

    objs = [t for t in schema.types if t.kind == "OBJECT"]
    # S1 add a type of each kind
    if want("S1"):
        n = fresh(schema, "NewT")
        yield "S1", "object", schema.add_type(TypeDef("OBJECT", n, (FieldDef("x", ("named", "Int")), FieldDef("self", ("named", n)))))
        yield "S1", "enum", schema.add_type(TypeDef("ENUM", n, values=(EnumVal("ONE"), EnumVal("TWO"))))
        yield "S1", "scalar", schema.add_type(TypeDef("SCALAR", n))
        yield "S1", "input", schema.add_type(TypeDef("INPUT_OBJECT", n, (ArgDef("v", ("named", "Int")), ArgDef("again", ("named", n)))))
        yield "S1", "interface", schema.add_type(TypeDef("INTERFACE", n, (FieldDef("x", ("named", "Int")),)))
        if objs:
            yield "S1", "union", schema.add_type(TypeDef("UNION", n, members=(objs[0].name,)))
            yield "S1", "union-2", schema.add_type(TypeDef("UNION", n, members=tuple(o.name for o in objs[:3])))
    for t in schema.types:
        # S2 wrap a field type / S3 add argument with default / S9 deprecation / S10 nonIntrospectable
        if t.kind in ("OBJECT", "INTERFACE"):
            is_iface_member = t.kind == "INTERFACE" or bool(t.interfaces)
            for fi, f in enumerate(t.fields):
                def with_field(nf, t=t, fi=fi):
                    return schema.with_type(replace(t, fields=t.fields[:fi] + (nf,) + t.fields[fi + 1:]))

                if want("S2") and not is_iface_member:
                    for w in (("list", f.type), ("nn", f.type) if f.type[0] != "nn" else None, ("nn", ("list", ("nn", doc.parse_type_str(doc.named_of(f.type))))),
                              ("list", ("list", f.type))):
                        if w is not None:
                            yield "S2", t.kind.lower() + "-field", with_field(replace(f, type=w))
                if want("S3") and not is_iface_member and fi == 0:
                    for at, dv in default_candidates(schema):
                        yield "S3", "field-argument|" + type(dv).__name__, with_field(replace(f, args=f.args + (ArgDef("nd", at, dv),)))
                    yield "S3", "field-argument|none", with_field(replace(f, args=f.args + (ArgDef("nd", ("named", "Int")), ArgDef("nd2", ("nn", ("list", ("named", "String")))))))
                if want("S9") and fi < 2:
                    yield "S9", "field", with_field(replace(f, dirs=f.dirs + (DirUse("deprecated"),)))
                    yield "S9", "field-reason", with_field(replace(f, dirs=f.dirs + (DirUse("deprecated", (("reason", StrV("because")),)),)))
                if want("S10") and fi == 0 and len(t.fields) > 1:
                    yield "S10", "field", with_field(replace(f, dirs=f.dirs + (DirUse("nonIntrospectable"),)))
        if t.kind == "INPUT_OBJECT" and want("S4"):
            for at, dv in default_candidates(schema):
                if doc.named_of(at) != t.name:
                    yield "S4", "input-field|" + type(dv).__name__, schema.with_type(replace(t, fields=t.fields + (ArgDef("nd", at, dv),)))
        if t.kind == "INTERFACE" and want("S5"):
            n = fresh(schema, "Impl")
            yield "S5", "implementer", schema.add_type(TypeDef("OBJECT", n, t.fields + (FieldDef("own", ("named", "Int")),), (t.name,)))
        if t.kind == "UNION" and want("S6"):
            for o in objs:
                if o.name not in t.members and o.name not in (schema.query, schema.mutation, schema.subscription):
                    yield "S6", "member", schema.with_type(replace(t, members=t.members + (o.name,)))
                    break
        if t.kind == "ENUM" and want("S9"):
            for vi, v in enumerate(t.values[:2]):
                yield "S9", "enum-value", schema.with_type(replace(t, values=t.values[:vi] + (replace(v, dirs=v.dirs + (DirUse("deprecated", (("reason", StrV("old")),)),)),) + t.values[vi + 1:]))
            yield "S9", "enum-value-added", schema.with_type(replace(t, values=t.values + (EnumVal("ADDED"),)))
    # S8 custom directive with arguments and a location set
    if want("S8"):
        n = fresh(schema, "cd")
        yield "S8", "executable-locations", replace(schema, directives=schema.directives + (DirectiveDef(n, (ArgDef("a", ("named", "Int"), IntV("3")), ArgDef("b", ("list", ("named", "String")))), ("FIELD", "QUERY", "FRAGMENT_SPREAD")),))
        yield "S8", "type-system-locations", replace(schema, directives=schema.directives + (DirectiveDef(n, (), ("OBJECT", "FIELD_DEFINITION", "ENUM_VALUE", "SCALAR", "ARGUMENT_DEFINITION", "INPUT_FIELD_DEFINITION", "INTERFACE", "UNION", "ENUM", "INPUT_OBJECT", "SCHEMA")),))
        for t in objs[:1]:
            d2 = replace(schema, directives=schema.directives + (DirectiveDef(n, (ArgDef("a", ("named", "Int")),), ("OBJECT", "FIELD_DEFINITION")),))
            yield "S8", "applied", d2.with_type(replace(t, dirs=t.dirs + (DirUse(n, (("a", IntV("1")),)),),
                                                        fields=(replace(t.fields[0], dirs=t.fields[0].dirs + (DirUse(n),)),) + t.fields[1:]))
    # S12 roots
    if want("S12"):
        if not schema.schema_block:
            yield "S12", "explicit-block", replace(schema, schema_block=True)
        q = schema.type(schema.query)
        if q is not None and schema.query == "Query":
            n = fresh(schema, "RootQ")
            s2 = replace(schema, types=tuple(replace(t, name=n) if t.name == "Query" else t for t in schema.types), query=n, schema_block=True)
            yield "S12", "renamed-query", s2
        if schema.mutation is None and objs:
            n = fresh(schema, "Mut")
            yield "S12", "mutation-added", replace(schema.add_type(TypeDef("OBJECT", n, (FieldDef("go", ("named", "Int")),))), mutation=n, schema_block=True)


# ---- layouts: ways of writing the same model down -------------------------------------------------------------------------------
def split_extend(t):
    """(base definition, extension) with the last member moved into an `extend` block; None if not applicable"""
    if t.kind in ("OBJECT", "INTERFACE", "INPUT_OBJECT") and len(t.fields) >= 2:
        return replace(t, fields=t.fields[:-1]), replace(t, fields=t.fields[-1:], interfaces=(), dirs=())
    if t.kind == "UNION" and len(t.members) >= 2:
        return replace(t, members=t.members[:-1]), replace(t, members=t.members[-1:], dirs=())
    if t.kind == "ENUM" and len(t.values) >= 2:
        return replace(t, values=t.values[:-1]), replace(t, values=t.values[-1:], dirs=())
    return None


def sdl_parts(schema, extend=False):
    parts = [S.print_directive(d) for d in schema.directives]
    exts = []
    for t in schema.types:
        sp = split_extend(t) if extend else None
        if sp:
            parts.append(S.print_type(sp[0]))
            exts.append(S.print_type(sp[1], extend=True))
        else:
            parts.append(S.print_type(t))
    if schema.schema_block:
        parts.append(S.print_schema_block(schema))
    return parts + exts
