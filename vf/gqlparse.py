"""June-2018 GraphQL parser producing the JSON AST of libgraphqlparser's JsonVisitor.

Trusted base (DESIGN 2.1).  Works on *bytes* (one column per byte, like the flex lexer of the C library); string
values are decoded as UTF-8 with surrogateescape so that invalid input bytes travel through unchanged.

    parse_json_ast(data: bytes) -> dict            raises GQLSyntaxError("L.C: syntax error, unexpected TOKEN")
"""

__all__ = ("parse_json_ast", "GQLSyntaxError", "tokenize")


class GQLSyntaxError(Exception):
    pass


_PUNCT = set("!$():=@[]{|}&")
_NAME_START = set("_abcdefghijklmnopqrstuvwxyzABCDEFGHIJKLMNOPQRSTUVWXYZ")
_NAME_CONT = _NAME_START | set("0123456789")
_DIGITS = set("0123456789")
_ESC = {'"': '"', "\\": "\\", "/": "/", "b": "\b", "f": "\f", "n": "\n", "r": "\r", "t": "\t"}


class Tok:
    __slots__ = ("kind", "text", "value", "l0", "c0", "l1", "c1")

    def __init__(self, kind, text, value, l0, c0, l1, c1):
        self.kind = kind  # PUNCT NAME INT FLOAT STRING EOF
        self.text = text
        self.value = value
        self.l0, self.c0, self.l1, self.c1 = l0, c0, l1, c1

    def describe(self):
        if self.kind == "EOF":
            return "EOF"
        if self.kind == "PUNCT":
            return self.text
        if self.kind == "NAME":
            return {"true": "true", "false": "false", "null": "null"}.get(self.text, "IDENTIFIER")
        return self.kind


def _err(line, col, what, width=1):
    pos = "%d.%d" % (line, col)
    if width > 1:
        pos += "-%d" % (col + width - 1)
    raise GQLSyntaxError("%s: syntax error, unexpected %s" % (pos, what))


def _dedent_block(raw):
    lines = raw.replace("\r\n", "\n").replace("\r", "\n").split("\n")
    common = None
    for line in lines[1:]:
        indent = len(line) - len(line.lstrip(" \t"))
        if indent < len(line) and (common is None or indent < common):
            common = indent
    if common:
        lines = [lines[0]] + [l[common:] for l in lines[1:]]
    while lines and not lines[0].strip(" \t"):
        lines.pop(0)
    while lines and not lines[-1].strip(" \t"):
        lines.pop()
    return "\n".join(lines)


def _u8(s):
    """latin-1 view of bytes -> text (UTF-8, invalid bytes kept as surrogate escapes)."""
    return s.encode("latin-1").decode("utf-8", "surrogateescape")


def tokenize(data):
    s = data.decode("latin-1")
    n = len(s)
    i = 0
    line = 1
    ls = 0  # offset of the current line start
    toks = []
    if s.startswith("\xef\xbb\xbf"):
        i = 3
        ls = 3  # the BOM does not count as columns
    while True:
        # ignored tokens
        while i < n:
            ch = s[i]
            if ch == " " or ch == "\t" or ch == ",":
                i += 1
            elif ch == "\n":
                i += 1
                line += 1
                ls = i
            elif ch == "\r":
                i += 1
                if i < n and s[i] == "\n":
                    i += 1
                line += 1
                ls = i
            elif ch == "#":
                while i < n and s[i] not in "\n\r":
                    i += 1
            elif s.startswith("\xef\xbb\xbf", i):
                i += 3
            else:
                break
        if i >= n:
            toks.append(Tok("EOF", "", None, line, i - ls + 1, line, i - ls + 1))
            return toks
        ch = s[i]
        c0 = i - ls + 1
        if ch == "." and s.startswith("...", i):
            toks.append(Tok("PUNCT", "...", None, line, c0, line, c0 + 3))
            i += 3
        elif ch in _PUNCT:
            toks.append(Tok("PUNCT", ch, None, line, c0, line, c0 + 1))
            i += 1
        elif ch in _NAME_START:
            j = i + 1
            while j < n and s[j] in _NAME_CONT:
                j += 1
            toks.append(Tok("NAME", s[i:j], None, line, c0, line, c0 + (j - i)))
            i = j
        elif ch == "-" or ch in _DIGITS:
            j = i
            if s[j] == "-":
                j += 1
            if j >= n or s[j] not in _DIGITS:
                _err(line, c0, "unrecognized character \\x%02x" % ord(ch))
            if s[j] == "0":
                j += 1
            else:
                while j < n and s[j] in _DIGITS:
                    j += 1
            kind = "INT"
            if j < n and s[j] == "." and j + 1 < n and s[j + 1] in _DIGITS:
                kind = "FLOAT"
                j += 1
                while j < n and s[j] in _DIGITS:
                    j += 1
            if j < n and s[j] in "eE":
                k = j + 1
                if k < n and s[k] in "+-":
                    k += 1
                if k < n and s[k] in _DIGITS:
                    kind = "FLOAT"
                    j = k
                    while j < n and s[j] in _DIGITS:
                        j += 1
            toks.append(Tok(kind, s[i:j], s[i:j], line, c0, line, c0 + (j - i)))
            i = j
        elif ch == '"':
            if s.startswith('"""', i):
                j = i + 3
                buf = []
                l1, ls1 = line, ls
                while True:
                    if j >= n:
                        _err(l1, j - ls1 + 1, "EOF")
                    if s.startswith('"""', j):
                        j += 3
                        break
                    if s.startswith('\\"""', j):
                        buf.append('"""')
                        j += 4
                        continue
                    c = s[j]
                    if c == "\n":
                        l1 += 1
                        ls1 = j + 1
                    elif c == "\r":
                        if not (j + 1 < n and s[j + 1] == "\n"):
                            l1 += 1
                            ls1 = j + 1
                    elif c < " " and c != "\t":
                        _err(l1, j - ls1 + 1, "unrecognized character \\x%02x" % ord(c))
                    buf.append(c)
                    j += 1
                toks.append(Tok("STRING", s[i:j], _u8(_dedent_block("".join(buf))), line, c0, l1, j - ls1 + 1))
                line, ls = l1, ls1
                i = j
            else:
                j = i + 1
                buf = []
                while True:
                    if j >= n:
                        _err(line, j - ls + 1, "EOF")
                    c = s[j]
                    if c == '"':
                        j += 1
                        break
                    if c == "\n" or c == "\r":
                        _err(line, j - ls + 1, "unterminated string")
                    if c < " " and c != "\t":
                        _err(line, j - ls + 1, "unrecognized character \\x%02x" % ord(c))
                    if c == "\\":
                        j += 1
                        if j >= n:
                            _err(line, j - ls + 1, "EOF")
                        e = s[j]
                        if e in _ESC:
                            buf.append(_ESC[e])
                            j += 1
                        elif e == "u":
                            hx = s[j + 1 : j + 5]
                            if len(hx) != 4 or any(h not in "0123456789abcdefABCDEF" for h in hx):
                                _err(line, j - ls + 1, "bad unicode escape sequence")
                            cp = int(hx, 16)
                            # keep the byte view: encode the code point as UTF-8 bytes (latin-1 chars)
                            buf.append(chr(cp).encode("utf-8", "surrogatepass").decode("latin-1"))
                            j += 5
                        else:
                            _err(line, j - ls + 1, "bad escape sequence")
                    else:
                        buf.append(c)
                        j += 1
                raw = "".join(buf)
                toks.append(Tok("STRING", s[i:j], _u8(raw), line, c0, line, c0 + (j - i)))
                i = j
        else:
            _err(line, c0, "unrecognized character \\x%02x" % ord(ch))


def _loc(l0, c0, l1, c1):
    return {"start": {"line": l0, "column": c0}, "end": {"line": l1, "column": c1}}


class Parser:
    def __init__(self, data):
        self.toks = tokenize(data)
        self.p = 0

    # -- token helpers ---------------------------------------------------------------------------------------
    @property
    def t(self):
        return self.toks[self.p]

    def unexpected(self, tok=None):
        tok = tok or self.t
        _err(tok.l0, tok.c0, tok.describe(), max(1, tok.c1 - tok.c0) if tok.l0 == tok.l1 else 1)

    def is_punct(self, text):
        t = self.t
        return t.kind == "PUNCT" and t.text == text

    def is_name(self, text=None):
        t = self.t
        return t.kind == "NAME" and (text is None or t.text == text)

    def eat(self, text):
        if not self.is_punct(text):
            self.unexpected()
        t = self.t
        self.p += 1
        return t

    def eat_kw(self, text):
        if not self.is_name(text):
            self.unexpected()
        t = self.t
        self.p += 1
        return t

    def prev(self):
        return self.toks[self.p - 1]

    def span(self, first):
        last = self.prev()
        return _loc(first.l0, first.c0, last.l1, last.c1)

    # -- shared ------------------------------------------------------------------------------------------------
    def name(self, forbid=()):
        t = self.t
        if t.kind != "NAME" or t.text in forbid:
            self.unexpected()
        self.p += 1
        return {"kind": "Name", "loc": _loc(t.l0, t.c0, t.l1, t.c1), "value": t.text}

    def document(self):
        defs = []
        if self.t.kind == "EOF":
            self.unexpected()
        first = self.t
        while self.t.kind != "EOF":
            defs.append(self.definition())
        return {"kind": "Document", "loc": self.span(first), "definitions": defs}

    def definition(self):
        t = self.t
        if t.kind == "PUNCT" and t.text == "{":
            return self.operation()
        if t.kind == "NAME":
            if t.text in ("query", "mutation", "subscription"):
                return self.operation()
            if t.text == "fragment":
                return self.fragment_definition()
            if t.text in ("schema", "scalar", "type", "interface", "union", "enum", "input", "extend", "directive"):
                return self.type_system_definition()
        if t.kind == "STRING":
            nxt = self.toks[self.p + 1]
            if nxt.kind == "NAME" and nxt.text in ("schema", "scalar", "type", "interface", "union", "enum", "input", "directive"):
                return self.type_system_definition()
        self.unexpected()

    # -- executable ------------------------------------------------------------------------------------------------
    def operation(self):
        first = self.t
        if self.is_punct("{"):
            ss = self.selection_set()
            return {"kind": "OperationDefinition", "loc": self.span(first), "operation": "query", "name": None,
                    "variableDefinitions": None, "directives": None, "selectionSet": ss}
        op = self.t.text
        self.p += 1
        name = self.name() if self.t.kind == "NAME" else None
        vds = None
        if self.is_punct("("):
            self.p += 1
            vds = []
            while True:
                vds.append(self.variable_definition())
                if self.is_punct(")"):
                    break
            self.p += 1
        dirs = self.directives(False)
        ss = self.selection_set()
        return {"kind": "OperationDefinition", "loc": self.span(first), "operation": op, "name": name,
                "variableDefinitions": vds, "directives": dirs, "selectionSet": ss}

    def variable(self):
        first = self.eat("$")
        nm = self.name()
        return {"kind": "Variable", "loc": self.span(first), "name": nm}

    def variable_definition(self):
        first = self.t
        var = self.variable()
        self.eat(":")
        typ = self.type_ref()
        default = None
        if self.is_punct("="):
            self.p += 1
            default = self.value(True)
        return {"kind": "VariableDefinition", "loc": self.span(first), "variable": var, "type": typ,
                "defaultValue": default}

    def type_ref(self):
        first = self.t
        if self.is_punct("["):
            self.p += 1
            inner = self.type_ref()
            self.eat("]")
            node = {"kind": "ListType", "loc": self.span(first), "type": inner}
        else:
            nm = self.name()
            node = {"kind": "NamedType", "loc": nm["loc"], "name": nm}
        if self.is_punct("!"):
            self.p += 1
            node = {"kind": "NonNullType", "loc": self.span(first), "type": node}
        return node

    def selection_set(self):
        first = self.eat("{")
        sels = []
        while True:
            sels.append(self.selection())
            if self.is_punct("}"):
                break
        self.p += 1
        return {"kind": "SelectionSet", "loc": self.span(first), "selections": sels}

    def selection(self):
        t = self.t
        if t.kind == "PUNCT" and t.text == "...":
            return self.fragment()
        if t.kind == "NAME":
            return self.field()
        self.unexpected()

    def field(self):
        first = self.t
        nm = self.name()
        alias = None
        if self.is_punct(":"):
            self.p += 1
            alias = nm
            nm = self.name()
        args = self.arguments(False)
        dirs = self.directives(False)
        ss = self.selection_set() if self.is_punct("{") else None
        return {"kind": "Field", "loc": self.span(first), "alias": alias, "name": nm, "arguments": args,
                "directives": dirs, "selectionSet": ss}

    def arguments(self, const):
        if not self.is_punct("("):
            return None
        self.p += 1
        args = []
        while True:
            first = self.t
            nm = self.name()
            self.eat(":")
            val = self.value(const)
            args.append({"kind": "Argument", "loc": self.span(first), "name": nm, "value": val})
            if self.is_punct(")"):
                break
        self.p += 1
        return args

    def directives(self, const):
        if not self.is_punct("@"):
            return None
        dirs = []
        while self.is_punct("@"):
            first = self.t
            self.p += 1
            nm = self.name()
            args = self.arguments(const)
            dirs.append({"kind": "Directive", "loc": self.span(first), "name": nm, "arguments": args})
        return dirs

    def fragment(self):
        first = self.eat("...")
        if self.is_name() and self.t.text != "on":
            nm = self.name()
            dirs = self.directives(False)
            return {"kind": "FragmentSpread", "loc": self.span(first), "name": nm, "directives": dirs}
        cond = None
        if self.is_name("on"):
            self.p += 1
            nm = self.name()
            cond = {"kind": "NamedType", "loc": nm["loc"], "name": nm}
        dirs = self.directives(False)
        ss = self.selection_set()
        return {"kind": "InlineFragment", "loc": self.span(first), "typeCondition": cond, "directives": dirs,
                "selectionSet": ss}

    def fragment_definition(self):
        first = self.eat_kw("fragment")
        nm = self.name(forbid=("on",))
        self.eat_kw("on")
        cn = self.name()
        cond = {"kind": "NamedType", "loc": cn["loc"], "name": cn}
        dirs = self.directives(False)
        ss = self.selection_set()
        return {"kind": "FragmentDefinition", "loc": self.span(first), "name": nm, "typeCondition": cond,
                "directives": dirs, "selectionSet": ss}

    def value(self, const):
        t = self.t
        loc = _loc(t.l0, t.c0, t.l1, t.c1)
        if t.kind == "PUNCT":
            if t.text == "$":
                if const:
                    self.unexpected()
                return self.variable()
            if t.text == "[":
                self.p += 1
                vals = []
                while not self.is_punct("]"):
                    vals.append(self.value(const))
                self.p += 1
                return {"kind": "ListValue", "loc": self.span(t), "values": vals}
            if t.text == "{":
                self.p += 1
                fields = []
                while not self.is_punct("}"):
                    f0 = self.t
                    nm = self.name()
                    self.eat(":")
                    val = self.value(const)
                    fields.append({"kind": "ObjectField", "loc": self.span(f0), "name": nm, "value": val})
                self.p += 1
                return {"kind": "ObjectValue", "loc": self.span(t), "fields": fields}
            self.unexpected()
        self.p += 1
        if t.kind == "INT":
            return {"kind": "IntValue", "loc": loc, "value": t.value}
        if t.kind == "FLOAT":
            return {"kind": "FloatValue", "loc": loc, "value": t.value}
        if t.kind == "STRING":
            return {"kind": "StringValue", "loc": loc, "value": t.value}
        if t.kind == "NAME":
            if t.text == "true" or t.text == "false":
                return {"kind": "BooleanValue", "loc": loc, "value": t.text == "true"}
            if t.text == "null":
                return {"kind": "NullValue", "loc": loc}
            return {"kind": "EnumValue", "loc": loc, "value": t.text}
        self.p -= 1
        self.unexpected()

    # -- type system (enough to emit the node kinds; consumed by rule 5.1.1 only) ------------------------------------------
    def description(self):
        """-> the description text (None when there is none); kept on the node under the private key "_description" """
        if self.t.kind == "STRING":
            v = self.t.value
            self.p += 1
            return v
        return None

    def type_system_definition(self):
        first = self.t
        desc = self.description()
        kw = self.t.text
        self.p += 1
        if kw == "extend":
            inner = self.type_system_definition_body(self.t, self._eat_name_tok())
            return {"kind": "TypeExtensionDefinition", "loc": self.span(first), "definition": inner}
        node = self.type_system_definition_body(first, kw)
        if isinstance(node, dict):
            node["_description"] = desc
        return node

    def _eat_name_tok(self):
        if self.t.kind != "NAME":
            self.unexpected()
        self.p += 1
        return self.prev().text

    def type_system_definition_body(self, first, kw):
        if kw == "schema":
            dirs = self.directives(True)
            ops = []
            if self.is_punct("{"):
                self.p += 1
                while not self.is_punct("}"):
                    o0 = self.t
                    op = self._eat_name_tok()
                    if op not in ("query", "mutation", "subscription"):
                        self.unexpected(o0)
                    self.eat(":")
                    nm = self.name()
                    ops.append({"kind": "OperationTypeDefinition", "loc": self.span(o0), "operation": op,
                                "type": {"kind": "NamedType", "loc": nm["loc"], "name": nm}})
                self.p += 1
            return {"kind": "SchemaDefinition", "loc": self.span(first), "directives": dirs, "operationTypes": ops}
        if kw == "scalar":
            nm = self.name()
            dirs = self.directives(True)
            return {"kind": "ScalarTypeDefinition", "loc": self.span(first), "name": nm, "directives": dirs}
        if kw in ("type", "interface"):
            nm = self.name()
            ifaces = None
            if kw == "type" and self.is_name("implements"):
                self.p += 1
                ifaces = []
                if self.is_punct("&"):
                    self.p += 1
                while True:
                    n2 = self.name()
                    ifaces.append({"kind": "NamedType", "loc": n2["loc"], "name": n2})
                    if self.is_punct("&"):
                        self.p += 1
                        continue
                    if self.is_name() and not self.is_punct("{"):
                        continue
                    break
            dirs = self.directives(True)
            fields = []
            if self.is_punct("{"):
                self.p += 1
                while not self.is_punct("}"):
                    fields.append(self.field_definition())
                self.p += 1
            node = {"kind": "ObjectTypeDefinition" if kw == "type" else "InterfaceTypeDefinition",
                    "loc": self.span(first), "name": nm, "directives": dirs, "fields": fields}
            if kw == "type":
                node["interfaces"] = ifaces
            return node
        if kw == "union":
            nm = self.name()
            dirs = self.directives(True)
            types = []
            if self.is_punct("="):
                self.p += 1
                if self.is_punct("|"):
                    self.p += 1
                while True:
                    n2 = self.name()
                    types.append({"kind": "NamedType", "loc": n2["loc"], "name": n2})
                    if not self.is_punct("|"):
                        break
                    self.p += 1
            return {"kind": "UnionTypeDefinition", "loc": self.span(first), "name": nm, "directives": dirs,
                    "types": types}
        if kw == "enum":
            nm = self.name()
            dirs = self.directives(True)
            vals = []
            if self.is_punct("{"):
                self.p += 1
                while not self.is_punct("}"):
                    v0 = self.t
                    vdesc = self.description()
                    vn = self.name(forbid=("true", "false", "null"))
                    vd = self.directives(True)
                    vals.append({"kind": "EnumValueDefinition", "loc": self.span(v0), "name": vn, "directives": vd, "_description": vdesc})
                self.p += 1
            return {"kind": "EnumTypeDefinition", "loc": self.span(first), "name": nm, "directives": dirs,
                    "values": vals}
        if kw == "input":
            nm = self.name()
            dirs = self.directives(True)
            fields = []
            if self.is_punct("{"):
                self.p += 1
                while not self.is_punct("}"):
                    fields.append(self.input_value_definition())
                self.p += 1
            return {"kind": "InputObjectTypeDefinition", "loc": self.span(first), "name": nm, "directives": dirs,
                    "fields": fields}
        if kw == "directive":
            self.eat("@")
            nm = self.name()
            args = self.argument_definitions()
            self.eat_kw("on")
            locs = []
            if self.is_punct("|"):
                self.p += 1
            while True:
                locs.append(self.name())
                if not self.is_punct("|"):
                    break
                self.p += 1
            return {"kind": "DirectiveDefinition", "loc": self.span(first), "name": nm, "arguments": args,
                    "locations": locs}
        self.unexpected(first)

    def argument_definitions(self):
        if not self.is_punct("("):
            return None
        self.p += 1
        args = []
        while True:
            args.append(self.input_value_definition())
            if self.is_punct(")"):
                break
        self.p += 1
        return args

    def field_definition(self):
        first = self.t
        desc = self.description()
        nm = self.name()
        args = self.argument_definitions()
        self.eat(":")
        typ = self.type_ref()
        dirs = self.directives(True)
        return {"kind": "FieldDefinition", "loc": self.span(first), "name": nm, "arguments": args, "type": typ,
                "directives": dirs, "_description": desc}

    def input_value_definition(self):
        first = self.t
        desc = self.description()
        nm = self.name()
        self.eat(":")
        typ = self.type_ref()
        default = None
        if self.is_punct("="):
            self.p += 1
            default = self.value(True)
        dirs = self.directives(True)
        return {"kind": "InputValueDefinition", "loc": self.span(first), "name": nm, "type": typ,
                "defaultValue": default, "directives": dirs, "_description": desc}


def parse_json_ast(data):
    if isinstance(data, str):
        data = data.encode("utf-8", "surrogateescape")
    return Parser(data).document()
