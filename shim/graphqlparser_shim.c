#include <stdlib.h>
#include <string.h>
struct GraphQLAstNode { char *json; };
typedef void (*verif_parse_cb)(const char *text);
static verif_parse_cb g_cb = 0;
static char *g_json = 0, *g_err = 0;
void verif_set_parser(verif_parse_cb cb) { g_cb = cb; }
void verif_set_result(const char *json, const char *err) {
  g_json = json ? strdup(json) : 0; g_err = err ? strdup(err) : 0;
}
struct GraphQLAstNode *graphql_parse_string(const char *text, const char **error) {
  *error = 0; g_json = 0; g_err = 0;
  if (!g_cb) { *error = strdup("verif: no parser registered"); return 0; }
  g_cb(text);
  if (g_err || !g_json) { *error = g_err ? g_err : strdup("verif: parser returned nothing"); free(g_json); g_json = 0; g_err = 0; return 0; }
  struct GraphQLAstNode *n = malloc(sizeof *n);
  n->json = g_json; g_json = 0;
  return n;
}
void graphql_error_free(const char *error) { free((void *)error); }
void graphql_node_free(struct GraphQLAstNode *node) { if (node) { free(node->json); free(node); } }
const char *graphql_ast_to_json(const struct GraphQLAstNode *node) { return node->json; }
