#!/bin/sh
# Builds the ABI-compatible stand-in for the absent libgraphqlparser.so into /verif/build (never into /repo).
set -e
cd "$(dirname "$0")"
mkdir -p build evidence replays
gcc -shared -fPIC -O2 -o build/libgraphqlparser.so shim/graphqlparser_shim.c
echo "setup ok: build/libgraphqlparser.so"
