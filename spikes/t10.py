# mid-run injection: besides choosing which pending future completes at quiescence, allow ONE completion to be
# injected between any two callbacks of a quiescing run (I-deviation <= 1). Counts schedules and distinct outcomes.
import json, time, sys
sys.argv=[sys.argv[0]]
src=open(__file__.replace("t10.py","t2.py")).read().split("loop=VLoop()")[0]
exec(src)
def run_i(loop, coro_fn, choices, inject):          # inject = (gap_index, pending_index) or None
    global S
    S=Sched(); events._set_running_loop(loop)
    try:
        t=loop.create_task(coro_fn()); gap=[0]; gaps_pending=[]
        def quiesce():
            while loop._ready:
                if inject and gap[0]==inject[0] and len(S.pending)>inject[1]:
                    l,f=S.pending.pop(inject[1]); f.set_result(None)
                gaps_pending.append(len(S.pending)); gap[0]+=1
                h=loop._ready.popleft()
                if not h._cancelled: h._run()
        quiesce(); k=0; trace=[]
        while not t.done():
            en=S.pending; assert en,"deadlock"
            c=choices[k] if k<len(choices) else 0; c=min(c,len(en)-1); trace.append((c,len(en))); k+=1   # clamp: after an injection the enabled list differs
            l,f=en.pop(c); f.set_result(None); quiesce()
        return t.result(), trace, gaps_pending
    finally: events._set_running_loop(None)
loop=VLoop(); events._set_running_loop(loop)
async def mk(): return await create_engine("type Item { n: Int! } type Query { a: Int b: Int c: [Item] }")
t=loop.create_task(mk()); loop.quiesce(); e=t.result(); events._set_running_loop(None)
DOCS["q1"]=[F("a"),F("b"),F("c",[F("n")]),F("a",alias="a2")]
t0=time.time(); n=0; outs={}
stack=[[]]
while stack:
    prefix=stack.pop()
    res,trace,gp=run_i(loop, lambda: e.execute("q1"), prefix, None); n+=1
    key=json.dumps(res["data"],sort_keys=True)+"|"+json.dumps(sorted((x["message"],str(x["path"])) for x in res.get("errors",[]))); outs[key]=outs.get(key,0)+1
    for g,np_ in enumerate(gp):
        for pi in range(np_):
            r2,_,_=run_i(loop, lambda: e.execute("q1"), prefix, (g,pi)); n+=1
            key=json.dumps(r2["data"],sort_keys=True)+"|"+json.dumps(sorted((x["message"],str(x["path"])) for x in r2.get("errors",[]))); outs[key]=outs.get(key,0)+1
    for i in range(len(prefix),len(trace)):
        for alt in range(1,trace[i][1]): stack.append([c for c,_ in trace[:i]]+[alt])
print("schedules incl. single injections:",n,"distinct normalised outcomes:",len(outs),"time %.2fs"%(time.time()-t0))
