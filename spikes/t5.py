from ast_b import *
import asyncio, json
from asyncio import events, base_events
from tartiflette import create_engine, Resolver, Subscription
class VLoop(base_events.BaseEventLoop):
    def __init__(self): super().__init__(); self._vtime=0.0
    def time(self): return self._vtime
    def _process_events(self, ev): pass
    def _write_to_self(self): pass
    def quiesce(self):
        n=0
        while self._ready:
            h=self._ready.popleft()
            if not h._cancelled: h._run()
            n+=1
        return n
class Sched:
    def __init__(self): self.pending=[]; self.log=[]
    async def point(self,label):
        f=asyncio.get_event_loop().create_future(); self.pending.append((label,f)); self.log.append(("start",label)); await f; self.log.append(("resume",label))
S=None
EVENTS=[]
@Subscription("Subscription.s", schema_name="s14")
async def src(p,a,c,i):
    S.log.append(("source-start",a))
    for k,ev in enumerate(EVENTS):
        await S.point("src%d"%k)
        yield ev
    await S.point("srcend")
@Resolver("Item.n", schema_name="s14")
async def rn(p,a,c,i):
    await S.point("n"); return p["n"]
@Resolver("Query.q", schema_name="s14")
async def rq(p,a,c,i): return 1
def run(loop, mk, choices):
    global S
    S=Sched(); events._set_running_loop(loop)
    out=[]
    async def consume():
        async for r in mk(): out.append(r)
    try:
        t=loop.create_task(consume()); loop.quiesce(); k=0; trace=[]
        while not t.done():
            en=S.pending; assert en,"deadlock"
            c=choices[k] if k<len(choices) else 0; trace.append((c,len(en))); k+=1
            l,f=en.pop(c); f.set_result(None); loop.quiesce()
        t.result()
        return out,trace,S.log
    finally: events._set_running_loop(None)
loop=VLoop(); events._set_running_loop(loop)
async def mk(): return await create_engine("type Item { n: Int! } type Query { q: Int } type Subscription { s(x: Int = 3): Item }", schema_name="s14")
t=loop.create_task(mk()); loop.quiesce(); e=t.result(); events._set_running_loop(None)
DOCS["sub"]=[OP([F("s",[F("n")],alias="al")],op="subscription")]
EVENTS[:]=[{"s":{"n":1}},{"s":{"n":None}},None,{"s":{"n":3}}]
out,trace,log=run(loop, lambda: e.subscribe("sub"), [])
for o in out: print(json.dumps(o))
print(trace); print(log)
DOCS["bad"]=[OP([F("s",[F("nope")])],op="subscription")]
out,trace,log=run(loop, lambda: e.subscribe("bad"), [])
print(out, log)
