from ast_b import *
import asyncio, json
from tartiflette import create_engine, Resolver, Scalar
@Scalar("Tag", schema_name="s8")
class Tag:
    def coerce_output(self, v): return v
    def coerce_input(self, v): return v
    def parse_literal(self, ast): return ast.value
SDL='''
"""iface desc"""
interface Node { id: ID! name: String @deprecated }
type A implements Node { id: ID! name: String a(x: Int = 3, s: String = "q\\"uote", l: [Int!] = [1, 2], o: P = {a: 1, b: "z"}, e: Color = RED, f: Float = 1e3, n: Int = null): Int old: Int @deprecated(reason: "gone") hidden: Int @nonIntrospectable }
type B implements Node { id: ID! name: String b: Int! }
type C { c: String }
union Pet = A | C
extend union Pet = B
enum Color { RED GREEN @deprecated }
extend enum Color { BLUE }
scalar Tag
input P { a: Int b: String = "x" c: [Int!] }
extend input P { d: Color = GREEN }
directive @my(x: Int = 1) on FIELD | FIELD_DEFINITION
type Query { node: Node pet: Pet color: Color tag: Tag }
extend type Query { more: [[Int!]]! }
'''
TYPE=lambda d: F("type",[F("kind"),F("name"),F("ofType",[F("kind"),F("name"),F("ofType",[F("kind"),F("name"),F("ofType",[F("kind"),F("name")])])])])
IV=[F("name"),TYPE(0),F("defaultValue")]
async def main():
    e=await create_engine(SDL, schema_name="s8")
    DOCS["intro"]=[OP([F("__schema",[
        F("queryType",[F("name")]),F("mutationType",[F("name")]),F("subscriptionType",[F("name")]),
        F("types",[F("kind"),F("name"),F("description"),
            F("fields",[F("name"),F("args",IV),TYPE(0),F("isDeprecated"),F("deprecationReason")],args={"includeDeprecated":True}),
            F("interfaces",[F("name")]),F("possibleTypes",[F("name")]),
            F("enumValues",[F("name"),F("isDeprecated"),F("deprecationReason")],args={"includeDeprecated":True}),
            F("inputFields",IV)]),
        F("directives",[F("name"),F("locations"),F("args",IV)])])])]
    r=await e.execute("intro")
    if "errors" in r: print(r["errors"])
    s=r["data"]["__schema"]
    print({k:s[k] for k in ("queryType","mutationType","subscriptionType")})
    for t in s["types"]:
        if t["name"] in ("A","Node","Pet","Color","P","Query","Tag","Int"):
            print(json.dumps(t)[:1500]); print()
    print([ (d["name"],d["locations"],[(a["name"],a["defaultValue"]) for a in d["args"]]) for d in s["directives"]])
    print(sorted(t["name"] for t in s["types"]))
    DOCS["t"]=[OP([F("__type",[F("name"),F("kind"),F("fields",[F("name")])],args={"name":"A"}),F("__type",[F("name")],args={"name":"Nope"},alias="u"),F("__typename")])]
    print(await e.execute("t"))
asyncio.run(main())
