from ast_b import *
import asyncio, itertools
from tartiflette import create_engine, Directive, Scalar
CASES = {
 "ok": "type Query { a: Int }",
 "undef_field_type": "type Query { a: Foo }",
 "undef_field_type_wrapped": "type Query { a: [Foo!]! }",
 "undef_arg_type": "type Query { a(x: Foo): Int }",
 "undef_input_field_type": "input I { x: Foo } type Query { a(i: I): Int }",
 "undef_iface_field_type": "interface N { x: Foo } type Query { a: Int }",
 "undef_in_extend": "type Query { a: Int } extend type Query { b: Foo }",
 "undef_directive_arg_type": "directive @d(x: Foo) on FIELD type Query { a: Int }",
 "arg_output_type": "type O { x: Int } type Query { a(o: O): Int }",
 "arg_output_type_wrapped": "type O { x: Int } type Query { a(o: [O!]): Int }",
 "input_field_output_type": "type O { x: Int } input I { o: O } type Query { a(i: I): Int }",
 "iface_missing_field": "interface N { id: ID } type A implements N { x: Int } type Query { a: A }",
 "iface_bad_type": "interface N { id: ID } type A implements N { id: Int } type Query { a: A }",
 "iface_missing_arg": "interface N { f(x: Int): ID } type A implements N { f: ID } type Query { a: A }",
 "iface_bad_arg": "interface N { f(x: Int): ID } type A implements N { f(x: String): ID } type Query { a: A }",
 "iface_extra_required": "interface N { f: ID } type A implements N { f(y: Int!): ID } type Query { a: A }",
 "iface_via_extend": "interface N { id: ID } type A { x: Int } extend type A implements N type Query { a: A }",
 "implements_object": "type O { x: Int } type A implements O { x: Int } type Query { a: A }",
 "implements_undefined": "type A implements Nope { x: Int } type Query { a: A }",
 "no_query": "type A { x: Int }",
 "schema_undefined_query": "schema { query: Q } type A { x: Int }",
 "schema_undefined_mutation_named_M": "schema { query: Query mutation: M } type Query { x: Int }",
 "schema_undefined_mutation_named_Mutation": "schema { query: Query mutation: Mutation } type Query { x: Int }",
 "schema_undefined_subscription": "schema { query: Query subscription: Subscription } type Query { x: Int }",
 "empty_object": "type A type Query { a: Int }",
 "empty_query": "type Query",
 "union_self": "type A { x: Int } union U = A | U type Query { u: U }",
 "union_self_extend": "type A { x: Int } union U = A extend union U = U type Query { u: U }",
 "dup_enum": "enum E { A A } type Query { e: E }",
 "dup_enum_extend": "enum E { A } extend enum E { A } type Query { e: E }",
 "dup_enum_within_extend": "enum E { A } extend enum E { B B } type Query { e: E }",
 "dup_type": "type A { x: Int } type A { y: Int } type Query { a: A }",
 "dup_type_kinds": "type A { x: Int } enum A { X } type Query { a: Int }",
 "dup_directive": "directive @d on FIELD directive @d on FIELD type Query { a: Int }",
 "scalar_noimpl": "scalar S type Query { a: S }",
 "extend_unknown": "extend type Nope { a: Int } type Query { a: Int }",
 "extend_wrong_kind": "enum E { A } extend type E { a: Int } type Query { a: Int }",
 "extend_dup_field": "type Query { a: Int } extend type Query { a: Int }",
 "extend_dup_union_member": "type A { x: Int } union U = A extend union U = A type Query { u: U }",
 "extend_dup_iface": "interface N { x: Int } type A implements N { x: Int } extend type A implements N type Query { a: A }",
 "extend_dup_input_field": "input I { x: Int } extend input I { x: Int } type Query { a(i: I): Int }",
 "extend_dup_directive": "directive @d on OBJECT type A @d { x: Int } extend type A @d type Query { a: A }",
 "syntax": "type Query { a: }",
 "undef_union_member": "union U = Nope type Query { u: U }",
 "union_of_scalar": "union U = Int type Query { u: U }",
 "undefined_directive_used": "type Query { a: Int @nope }",
 "dup_field": "type Query { a: Int a: String }",
}
async def main():
    i=0
    for k,sdl in CASES.items():
        i+=1
        try:
            e=await create_engine(sdl, schema_name="s%d"%i)
            print("%-42s BUILT" % k)
        except Exception as ex:
            print("%-42s %s: %s" % (k, type(ex).__name__, str(ex).replace("\n"," ")[:90]))
asyncio.run(main())
