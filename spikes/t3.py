import ctypes, json, os, sys, asyncio
lib = ctypes.CDLL("/verif/spikes/build/libgraphqlparser.so", mode=ctypes.RTLD_GLOBAL)
CB = ctypes.CFUNCTYPE(None, ctypes.c_char_p)
lib.verif_set_result.argtypes = [ctypes.c_char_p, ctypes.c_char_p]
L = {"start":{"line":1,"column":1},"end":{"line":1,"column":2}}
N=lambda v:{"kind":"Name","loc":L,"value":v}
def F(name, sel=None, alias=None):
    return {"kind":"Field","loc":L,"alias":N(alias) if alias else None,"name":N(name),"arguments":None,"directives":None,"selectionSet":SS(sel) if sel else None}
def SS(sel): return {"kind":"SelectionSet","loc":L,"selections":sel}
def SP(name): return {"kind":"FragmentSpread","loc":L,"name":N(name),"directives":None}
def FD(name, on, sel): return {"kind":"FragmentDefinition","loc":L,"name":N(name),"typeCondition":{"kind":"NamedType","loc":L,"name":N(on)},"directives":None,"selectionSet":SS(sel)}
def OP(sel, op="query", name=None): return {"kind":"OperationDefinition","loc":L,"operation":op,"name":N(name) if name else None,"variableDefinitions":None,"directives":None,"selectionSet":SS(sel)}
DOCS={}
def parse(text):
    lib.verif_set_result(json.dumps({"kind":"Document","loc":L,"definitions":DOCS[text.decode()]}).encode(), None)
cb = CB(parse); lib.verif_set_parser(cb)
os.environ["LIBGRAPHQLPARSER_DIR"] = "/verif/spikes/build"
sys.path.insert(0, "/repo")
from tartiflette import create_engine, Resolver, Subscription
@Resolver("Query.o")
async def ro(p,a,c,i): return {"a":1,"b":2,"c":{"a":5,"b":6,"c":None}}
@Subscription("Subscription.s")
async def ss(p,a,c,i):
    yield {"s":1}
@Subscription("Subscription.t")
async def st(p,a,c,i):
    yield {"t":1}
async def main():
    e = await create_engine("type O { a: Int b: Int c: O } type Query { o: O } type Subscription { s: Int t: Int }")
    DOCS["diamond"]=[OP([F("o",[SP("A")])]), FD("A","O",[SP("B"),SP("C")]), FD("B","O",[SP("D")]), FD("C","O",[SP("D")]), FD("D","O",[F("a")])]
    print("diamond", await e.execute("diamond"))
    DOCS["twice"]=[OP([F("o",[SP("A")])]), FD("A","O",[SP("B"),SP("B")]), FD("B","O",[F("a")])]
    print("twice", await e.execute("twice"))
    DOCS["twice_op"]=[OP([F("o",[SP("B"),SP("B")])]), FD("B","O",[F("a")])]
    print("twice_op", await e.execute("twice_op"))
    DOCS["nestedcycle"]=[OP([F("o",[SP("A")])]), FD("A","O",[F("a"),F("c",[SP("A")])])]
    print("nestedcycle", await e.execute("nestedcycle"))
    DOCS["sub2"]=[OP([F("s")],"subscription","S1"), OP([F("s"),F("t")],"subscription","S2")]
    async for r in e.subscribe("sub2", operation_name="S2"): print("sub2", r)
asyncio.run(main())
