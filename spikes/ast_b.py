import ctypes, json, os, sys
lib = ctypes.CDLL("/verif/spikes/build/libgraphqlparser.so", mode=ctypes.RTLD_GLOBAL)
CB = ctypes.CFUNCTYPE(None, ctypes.c_char_p)
lib.verif_set_result.argtypes = [ctypes.c_char_p, ctypes.c_char_p]
L = {"start":{"line":1,"column":1},"end":{"line":1,"column":2}}
N=lambda v:{"kind":"Name","loc":L,"value":v}
def V(v):
    if isinstance(v, dict) and "kind" in v: return v
    if v is None: return {"kind":"NullValue","loc":L}
    if isinstance(v,bool): return {"kind":"BooleanValue","loc":L,"value":v}
    if isinstance(v,int): return {"kind":"IntValue","loc":L,"value":str(v)}
    if isinstance(v,float): return {"kind":"FloatValue","loc":L,"value":str(v)}
    if isinstance(v,str):
        if v.startswith("$"): return {"kind":"Variable","loc":L,"name":N(v[1:])}
        if v.startswith("#"): return {"kind":"EnumValue","loc":L,"value":v[1:]}
        return {"kind":"StringValue","loc":L,"value":v}
    if isinstance(v,list): return {"kind":"ListValue","loc":L,"values":[V(x) for x in v]}
    if isinstance(v,dict): return {"kind":"ObjectValue","loc":L,"fields":[{"kind":"ObjectField","loc":L,"name":N(k),"value":V(x)} for k,x in v.items()]}
def ARGS(a): return [{"kind":"Argument","loc":L,"name":N(k),"value":V(v)} for k,v in a.items()] if a else None
def DIRS(ds): return [{"kind":"Directive","loc":L,"name":N(n),"arguments":ARGS(a)} for n,a in ds] if ds else None
def F(name, sel=None, alias=None, args=None, dirs=None):
    return {"kind":"Field","loc":L,"alias":N(alias) if alias else None,"name":N(name),"arguments":ARGS(args),"directives":DIRS(dirs),"selectionSet":SS(sel) if sel else None}
def SS(sel): return {"kind":"SelectionSet","loc":L,"selections":sel}
def SP(name, dirs=None): return {"kind":"FragmentSpread","loc":L,"name":N(name),"directives":DIRS(dirs)}
def IF(on, sel, dirs=None): return {"kind":"InlineFragment","loc":L,"typeCondition":{"kind":"NamedType","loc":L,"name":N(on)} if on else None,"directives":DIRS(dirs),"selectionSet":SS(sel)}
def FD(name, on, sel): return {"kind":"FragmentDefinition","loc":L,"name":N(name),"typeCondition":{"kind":"NamedType","loc":L,"name":N(on)},"directives":None,"selectionSet":SS(sel)}
def T(t):
    if t.endswith("!"): return {"kind":"NonNullType","loc":L,"type":T(t[:-1])}
    if t.startswith("["): return {"kind":"ListType","loc":L,"type":T(t[1:-1])}
    return {"kind":"NamedType","loc":L,"name":N(t)}
def VD(name,t,default=...): return {"kind":"VariableDefinition","loc":L,"variable":{"kind":"Variable","loc":L,"name":N(name)},"type":T(t),"defaultValue":None if default is ... else V(default)}
def OP(sel, op="query", name=None, vars=None): return {"kind":"OperationDefinition","loc":L,"operation":op,"name":N(name) if name else None,"variableDefinitions":vars,"directives":None,"selectionSet":SS(sel)}
DOCS={}
def parse(text):
    lib.verif_set_result(json.dumps({"kind":"Document","loc":L,"definitions":DOCS[text.decode()]}).encode(), None)
cb = CB(parse); lib.verif_set_parser(cb)
os.environ["LIBGRAPHQLPARSER_DIR"] = "/verif/spikes/build"
sys.path.insert(0, "/repo")
