import ctypes, json, os, sys, asyncio, time
from asyncio import events, base_events
lib = ctypes.CDLL("/verif/spikes/build/libgraphqlparser.so", mode=ctypes.RTLD_GLOBAL)
CB = ctypes.CFUNCTYPE(None, ctypes.c_char_p)
lib.verif_set_result.argtypes = [ctypes.c_char_p, ctypes.c_char_p]
L = {"start":{"line":1,"column":1},"end":{"line":1,"column":2}}
def F(name, sel=None, alias=None):
    return {"kind":"Field","loc":L,"alias":{"kind":"Name","loc":L,"value":alias} if alias else None,"name":{"kind":"Name","loc":L,"value":name},"arguments":None,"directives":None,
            "selectionSet":{"kind":"SelectionSet","loc":L,"selections":sel} if sel else None}
DOCS={}
def parse(text):
    sel=DOCS[text.decode()]
    doc={"kind":"Document","loc":L,"definitions":[{"kind":"OperationDefinition","loc":L,"operation":"query","name":None,"variableDefinitions":None,"directives":None,"selectionSet":{"kind":"SelectionSet","loc":L,"selections":sel}}]}
    lib.verif_set_result(json.dumps(doc).encode(), None)
cb = CB(parse); lib.verif_set_parser(cb)
os.environ["LIBGRAPHQLPARSER_DIR"] = "/verif/spikes/build"
sys.path.insert(0, "/repo")
from tartiflette import create_engine, Resolver

class VLoop(base_events.BaseEventLoop):
    def __init__(self):
        super().__init__(); self._vtime = 0.0
    def time(self): return self._vtime
    def _process_events(self, ev): pass
    def _write_to_self(self): pass
    def quiesce(self, limit=100000):
        n=0
        while self._ready:
            h = self._ready.popleft()
            if not h._cancelled: h._run()
            n+=1; assert n<limit
        return n

class Sched:
    def __init__(self): self.pending=[]; self.log=[]
    async def point(self, label):
        fut = asyncio.get_event_loop().create_future()
        self.pending.append((label,fut)); self.log.append(("start",label))
        await fut
        self.log.append(("resume",label))
S=None
@Resolver("Query.a")
async def ra(p,a,c,i):
    await S.point("a"); return 1
@Resolver("Query.b")
async def rb(p,a,c,i):
    await S.point("b"); raise Exception("boom b")
@Resolver("Query.c")
async def rc(p,a,c,i):
    await S.point("c"); return [{"n":1},{"n":None}]
@Resolver("Item.n")
async def rn(p,a,c,i):
    await S.point("n%s"%i.path.prev.key); return p["n"]

STEPS=0
def run(loop, coro_fn, choices):
    global S, STEPS
    S=Sched()
    events._set_running_loop(loop)
    try:
        t=loop.create_task(coro_fn())
        STEPS+=loop.quiesce()
        trace=[]; k=0
        while not t.done():
            en=S.pending
            assert en, "deadlock"
            c = choices[k] if k<len(choices) else 0
            trace.append((c,len(en))); k+=1
            label,fut=en.pop(c)
            fut.set_result(None)
            STEPS+=loop.quiesce()
        return t.result(), trace, S.log
    finally:
        events._set_running_loop(None)

def explore(loop, coro_fn):
    stack=[[]]; n=0; outs={}
    while stack:
        prefix=stack.pop()
        res,trace,log=run(loop,coro_fn,prefix)
        n+=1
        k=json.dumps(res,sort_keys=True)
        outs[k]=outs.get(k,0)+1
        for i in range(len(prefix),len(trace)):
            for alt in range(1,trace[i][1]):
                stack.append([c for c,_ in trace[:i]]+[alt])
    return n,outs

loop=VLoop()
events._set_running_loop(loop)
async def mk(): return await create_engine("type Item { n: Int! } type Query { a: Int b: Int c: [Item] }")
t=loop.create_task(mk()); loop.quiesce(); e=t.result()
events._set_running_loop(None)
DOCS["q1"]=[F("a"),F("b"),F("c",[F("n")]),F("a",alias="a2")]
t0=time.time()
n,outs=explore(loop, lambda: e.execute("q1"))
print("schedules",n,"steps",STEPS,"time",time.time()-t0)
for k,v in outs.items(): print(v,k)
