from ast_b import *
import asyncio, json, warnings
from tartiflette import create_engine, Resolver, TartifletteError
ERR=TartifletteError("shared boom")
PLAIN=ValueError("plain shared")
@Resolver("Query.a", schema_name="s9")
async def ra(p,a,c,i): raise ERR
@Resolver("Query.b", schema_name="s9")
async def rb(p,a,c,i): raise ERR
@Resolver("Query.c", schema_name="s9")
async def rc(p,a,c,i): raise PLAIN
@Resolver("Query.d", schema_name="s9")
async def rd(p,a,c,i): raise PLAIN
@Resolver("Query.n", schema_name="s9")
async def rn(p,a,c,i): return None
@Resolver("Query.ok", schema_name="s9")
async def rok(p,a,c,i): return 1
async def main():
    e=await create_engine("type Query { a: Int b: Int c: Int d: Int n: Int! ok: Int }", schema_name="s9")
    DOCS["ab"]=[OP([F("a"),F("b"),F("c"),F("d")])]
    r=await e.execute("ab"); print([ (x["message"],x["path"]) for x in r["errors"]])
    DOCS["b"]=[OP([F("b")])]
    r=await e.execute("b"); print([ (x["message"],x["path"]) for x in r["errors"]])
    e2=await create_engine("type Query { a: Int b: Int c: Int d: Int n: Int! ok: Int }", schema_name="s9b", coerce_parent_concurrently=False)
    from tartiflette.schema.registry import SchemaRegistry
    DOCS["nok"]=[OP([F("n"),F("ok")])]
    print(await e.execute("nok"))
asyncio.run(main())
