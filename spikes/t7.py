from ast_b import *
import asyncio, json
from tartiflette import create_engine, Resolver
SEEN=[]
SDL='''
enum E { A B }
input P { a: Int  b: String = "x"  c: [Int!] }
input Q { r: Int!  p: P }
input R { r: R  x: Int = 1 }
type Query {
  i(v: Int): String  f(v: Float): String  s(v: String): String  b(v: Boolean): String  d(v: ID): String  e(v: E): String
  p(v: P): String q(v: Q): String r(v: R): String
  li(v: [Int]): String lni(v: [Int!]): String lli(v: [[Int]]): String nli(v: [Int]!): String
  ni(v: Int!): String  di(v: Int = 7): String did(v: ID = 4): String dnn(v: Int! = 5): String
}'''
for f in "i f s b d e p q r li lni lli nli ni di did dnn".split():
    def mkr(f):
        @Resolver("Query."+f, schema_name="s7")
        async def r(p,a,c,i): SEEN.append(a); return "ok"
    mkr(f)
async def main():
    e=await create_engine(SDL, schema_name="s7")
    async def var(field, typ, value=..., default=...):
        key="%s|%s|%r|%r"%(field,typ,value,default)
        DOCS[key]=[OP([F(field,args={"v":"$v"})],vars=[VD("v",typ,default)])]
        SEEN.clear()
        r=await e.execute(key, variables=({} if value is ... else {"v":value}))
        errs=[x["message"][:70] for x in r.get("errors",[])]
        print("%-6s %-8s val=%-22r def=%-8r -> seen=%-28r data=%s %s"%(field,typ,value,default,SEEN[0] if SEEN else "-",json.dumps(r["data"]),errs))
    for v in [1, 1.0, 1.5, True, "1", 2**31, -2**31, None, ..., [1], {}]:
        await var("i","Int",v)
    for v in [1, 1.5, True, "1", float("nan"), float("inf"), 10**400]:
        await var("f","Float",v)
    for v in ["a", 1, True, None]: await var("s","String",v)
    for v in [True, 0, "true"]: await var("b","Boolean",v)
    for v in ["a", 1, 1.0, 1.5, True, -0]: await var("d","ID",v)
    for v in ["A", "C", 1, True, ["A"]]: await var("e","E",v)
    for v in [{}, {"a":1}, {"a":"1"}, {"z":1}, {"c":[1,None]}, {"c":1}, {"b":None}, [], 1]: await var("p","P",v)
    for v in [{}, {"r":1}, {"r":None}, {"r":1,"p":{"c":2}}]: await var("q","Q",v)
    for v in [{"r":{"r":{}}}, {"r":{"x":None}}]: await var("r","R",v)
    for v in [1, [1,None], None, [], [[1]]]: await var("li","[Int]",v)
    for v in [[1,None], [None], 1]: await var("lni","[Int!]",v)
    for v in [1, [1,2], [[1],[2]], [1,[2]], [None], None]: await var("lli","[[Int]]",v)
    await var("ni","Int!",...); await var("ni","Int!",None); await var("ni","Int!",...,3); await var("ni","Int!",None,3)
    await var("i","Int",...,3); await var("i","Int",None,3); await var("i","Int",...,None); await var("i","Int",...,"x"); await var("i","Int",5,"x")
    await var("di","Int",...); await var("di","Int",None); await var("did","ID",...); await var("dnn","Int",...,1); await var("dnn","Int",None,1); await var("dnn","Int",...)
    # literals
    async def lit(field, value):
        key="L%s|%r"%(field,value)
        DOCS[key]=[OP([F(field,args=({"v":value} if value is not ... else None))])]
        SEEN.clear(); r=await e.execute(key)
        errs=[x["message"][:70] for x in r.get("errors",[])]
        print("LIT %-6s val=%-22r -> seen=%-28r data=%s %s"%(field,value,SEEN[0] if SEEN else "-",json.dumps(r["data"]),errs))
    await lit("did",...); await lit("d",4); await lit("d","4"); await lit("f",1); await lit("i",1); await lit("lli",1); await lit("lli",[1,2]); await lit("li",[1,None]); await lit("e","A"); await lit("e","#A")
    await lit("p",{"a":1}); await lit("p",{}); await lit("q",{"r":1}); await lit("di",...); await lit("di",None); await lit("dnn",...); await lit("ni",None)
asyncio.run(main())
