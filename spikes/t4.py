from ast_b import *
import asyncio
from tartiflette import create_engine, Resolver, Directive, Scalar
LOG=[]
def mk(name):
    @Directive("t"+name, schema_name="s13")
    class D:
        async def on_post_input_coercion(self, da, nxt, parent_node, value, ctx):
            LOG.append(("in>",name,da.get("n"),value)); r=await nxt(parent_node, value, ctx); LOG.append(("in<",name,da.get("n"),r))
            return (r+"|i"+da["n"]) if isinstance(r,str) else r
        async def on_argument_execution(self, da, nxt, parent_node, adn, an, value, ctx):
            LOG.append(("arg>",name,da.get("n"),value)); r=await nxt(parent_node, adn, an, value, ctx); LOG.append(("arg<",name,da.get("n"),r)); return r
        async def on_field_execution(self, da, nxt, parent, args, ctx, info):
            LOG.append(("fld>",name,da.get("n"),dict(args))); r=await nxt(parent,args,ctx,info); LOG.append(("fld<",name,da.get("n"),r)); return r
        async def on_pre_output_coercion(self, da, nxt, value, ctx, info):
            LOG.append(("out>",name,da.get("n"),value)); r=await nxt(value,ctx,info); LOG.append(("out<",name,da.get("n"),r))
            return (r+"|o"+da["n"]) if isinstance(r,str) else r
mk("")
@Scalar("Tag", schema_name="s13")
class Tag:
    def coerce_output(self, v): LOG.append(("ser",v)); return v
    def coerce_input(self, v): LOG.append(("cin",v)); return v
    def parse_literal(self, ast): LOG.append(("lit",ast.value)); return ast.value
@Resolver("Query.f", schema_name="s13")
async def rf(p,a,c,i): LOG.append(("resolver",a)); return a["x"]["a"]
SDL='''
directive @t(n: String) on SCALAR | OBJECT | FIELD_DEFINITION | ARGUMENT_DEFINITION | INPUT_OBJECT | INPUT_FIELD_DEFINITION | FIELD | ENUM | ENUM_VALUE
scalar Tag @t(n:"S1") @t(n:"S2")
input I @t(n:"IO1") @t(n:"IO2") { a: Tag @t(n:"IF1") @t(n:"IF2") }
type Query { f(x: I @t(n:"A1") @t(n:"A2")): Tag @t(n:"F1") @t(n:"F2") }
'''
async def main():
    e=await create_engine(SDL, schema_name="s13")
    DOCS["lit"]=[OP([F("f",args={"x":{"a":"v"}},dirs=[("t",{"n":"Q1"}),("t",{"n":"Q2"})])])]
    LOG.clear(); print(await e.execute("lit"))
    for l in LOG: print("  ",l)
    DOCS["var"]=[OP([F("f",args={"x":"$x"})],vars=[VD("x","I")])]
    LOG.clear(); print(await e.execute("var",variables={"x":{"a":"v"}}))
    for l in LOG: print("  ",l)
    DOCS["nvar"]=[OP([F("f",args={"x":{"a":"$a"}})],vars=[VD("a","Tag")])]
    LOG.clear(); print(await e.execute("nvar",variables={"a":"v"}))
    for l in LOG: print("  ",l)
asyncio.run(main())
